#!/usr/bin/env python3
"""dev aid: tools/devbuild.py <outdir> <flavour> <harness.cpp> [lib.cpp ...]  -> builds <outdir>/<harness>-<flavour>"""
import os, sys
sys.path.insert(0, os.path.join(os.path.dirname(os.path.abspath(__file__)), "..", "lib"))
import vfw
class W:
    def __init__(s, d): s.dir = d; os.makedirs(d, exist_ok=True)
    def path(s, *p): return os.path.join(s.dir, *p)
out, fl, h = sys.argv[1:4]
libs = sys.argv[4:] or True
name = os.path.basename(h).replace(".cpp", "") + "-" + fl
print(vfw.build_many(W(out), [{"name": name, "flavour": fl, "srcs": [os.path.abspath(h)], "libsrcs": libs}]))
