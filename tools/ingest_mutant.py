#!/usr/bin/env python3
"""Confirm a seeded change delivered by a fault-seeding sub-agent and keep it under /verif/seeded/<id>/.
usage: tools/ingest_mutant.py <property> <A|B|..> <agent-output-dir> <agent-worktree-path-to-rewrite>
Steps (all in a fresh scratch git worktree of /repo outside /repo and /verif, removed afterwards):
  1. build + run the demonstration on the unchanged tree      -> must pass (exit 0)
  2. apply patch.diff, build the repository's own test suite   -> must report 30 tests PASSED
  3. build + run the demonstration on the changed tree          -> must fail (exit != 0)
Writes meta.json with what was run and observed; keeps the change only if all three hold."""
import json, os, re, shutil, subprocess, sys, time

VERIF = os.path.dirname(os.path.dirname(os.path.abspath(__file__)))


def sh(cmd, cwd=None, timeout=1800):
    p = subprocess.run(cmd, shell=True, cwd=cwd, stdout=subprocess.PIPE, stderr=subprocess.STDOUT, text=True, timeout=timeout)
    return p.returncode, p.stdout


def main():
    prop, letter, outdir, agent_wt = sys.argv[1:5]
    mid = "%s-%s" % (prop, letter)
    dest = os.path.join(VERIF, "seeded", mid)
    wt = "/tmp/ing/" + mid
    os.makedirs("/tmp/ing", exist_ok=True)
    sh("git -C /repo worktree remove --force %s" % wt)
    shutil.rmtree(wt, ignore_errors=True)
    rc, o = sh("git -C /repo worktree add -q --detach %s HEAD" % wt)
    if rc:
        print("worktree failed", o)
        return 2
    try:
        shutil.rmtree(dest, ignore_errors=True)
        os.makedirs(dest)
        for f in os.listdir(outdir):
            if os.path.isfile(os.path.join(outdir, f)) and os.path.getsize(os.path.join(outdir, f)) < 400000 and not f.startswith("demo_bin") and f not in ("demo",):
                shutil.copy(os.path.join(outdir, f), dest)
        readme = open(os.path.join(dest, "README.md")).read()
        cands = re.findall(r"`(sh [^`]*run\.sh)`", readme) + re.findall(r"`((?:cd [^`&]*&& )?(?:g\+\+|python3)[^`]*)`", readme)
        cands += [l.strip() for l in readme.splitlines() if (l.startswith("    g++") or l.startswith("    cd ")) and "demo" in l]
        if not cands:
            cands = [l.strip() for l in readme.splitlines() if l.strip().startswith(("g++", "python3"))]
        cmd = None
        for c in cands:
            if ("demo" in c or "run.sh" in c) and "tests/tests.cpp" not in c:
                cmd = c
                break
        if not cmd:
            # README without a build line: the standard one from the task description
            extra = " -mavx512f -D__AVX512__" if prop in ("C11", "C14") else ""
            cmd = "g++ -std=c++17 -O2 -mavx2%s -fopenmp -I%s/src demo.cpp %s/src/*.cpp -lgmp -lgmpxx -o demo && ./demo" % (extra, agent_wt.rstrip("/"), agent_wt.rstrip("/"))
        # rewrite the agent's paths to the scratch worktree and the kept copy
        for f in os.listdir(dest):
            if f.endswith((".cpp", ".py", ".sh", ".hpp")) and f != "gl64_host.hpp":
                p = os.path.join(dest, f)
                s = open(p).read()
                s2 = s.replace(outdir.rstrip("/"), dest).replace(agent_wt.rstrip("/"), wt)
                if s2 != s:
                    open(p, "w").write(s2)
        cmd = cmd.replace(outdir.rstrip("/"), dest).replace(agent_wt.rstrip("/"), wt)
        cmd = re.sub(r"\s+\[[a-z_]+=[^\]]*\]", "", cmd)  # optional-argument placeholders of a usage line: "./demo [threads=4]"
        if "&&" not in cmd and cmd.startswith("g++"):
            cmd += " && ./demo"
        meta = {"id": mid, "property": prop, "demo_cmd": cmd.replace(wt, "<worktree>"), "steps": {}}
        t0 = time.time()
        rc1, o1 = sh(cmd, cwd=dest)
        meta["steps"]["demo_on_unchanged_tree"] = {"exit": rc1, "tail": o1[-600:]}
        rc, o = sh("git -C %s apply %s" % (wt, os.path.join(dest, "patch.diff")))
        if rc:
            print("patch does not apply", o)
            meta["steps"]["apply"] = {"exit": rc, "tail": o[-400:]}
            json.dump(meta, open(os.path.join(dest, "meta.json"), "w"), indent=1)
            return 1
        rc2, o2 = sh("make -B testcpu 2>&1 | tail -3 && ./testcpu 2>&1 | tail -3", cwd=wt)
        passed = "PASSED  ] 30 tests" in o2
        meta["steps"]["suite_with_change"] = {"passed_30": passed, "tail": o2[-300:]}
        rc3, o3 = sh(cmd, cwd=dest)
        meta["steps"]["demo_on_changed_tree"] = {"exit": rc3, "tail": o3[-800:]}
        meta["confirmed"] = (rc1 == 0) and passed and (rc3 != 0)
        meta["wall_s"] = round(time.time() - t0, 1)
        meta["repo_head"] = sh("git -C /repo rev-parse --short HEAD")[1].strip()
        for junk in ("demo", "a.out", "demo_sm600", "demo_sm800", "gl64_host.hpp"):
            try:
                os.unlink(os.path.join(dest, junk))
            except OSError:
                pass
        json.dump(meta, open(os.path.join(dest, "meta.json"), "w"), indent=1)
        print(mid, "confirmed" if meta["confirmed"] else "NOT CONFIRMED", "demo-clean rc", rc1, "suite30", passed, "demo-changed rc", rc3)
        return 0 if meta["confirmed"] else 1
    finally:
        sh("git -C /repo worktree remove --force %s" % wt)
        shutil.rmtree(wt, ignore_errors=True)


if __name__ == "__main__":
    sys.exit(main())
