#!/usr/bin/env python3
"""Overload table + thunk generator for property C17 (strided / offset / broadcast base-field wrappers).

Parses the declarations of the copy/add/sub/mul _batch, _avx and _avx512 helper families out of the CURRENT
<repo>/src/goldilocks_base_field.hpp, classifies every parameter with a purely mechanical rule and emits
  (a) the table  /verif/tools/overloads_c17.json   (committed; --write-table rewrites it), and
  (b) C++ thunk translation units (one small function per overload which calls exactly that overload, selected
      with static_cast to the exact function-pointer type), used by /verif/harness/wrappers17.cpp.

Classification rule (nothing is guessed; a declaration that does not fit raises Unfit -> the check is INCONCLUSIVE):
  * parameter kinds, by type only:
        Element *x                      -> result in memory          (only legal as first parameter)
        __m256i &x / __m512i &x         -> result register           (only legal as first parameter)
        const Element *x                -> input in memory
        const Element x / const Element &x -> broadcast input (the same element in every lane)
        const __m256i &x / const __m512i &x -> input register (lane k = 64-bit lane k)
        uint64_t x                      -> uniform stride   (lane k at  base[k * x])
        [const] uint64_t x[N]           -> index list       (lane k at  base[x[k]]),  N in {4, 8, AVX_SIZE_, AVX512_SIZE_}
  * operands: first parameter is the result c; the remaining non-stride parameters are, in order, a and b
    (copy family: only one input, src).  add/sub/mul need exactly two inputs; result name must look like
    c*/result, first input like a*/in1, second like b*/in2 (copy: dst*/src*).
  * binding of a stride / index parameter to its operand:
        add/sub/mul:  by name suffix:  ..._a | ...1  -> a ;  ..._b | ...2 -> b ;  ..._c | ..._dst -> c
        copy:         by position: binds to the operand parameter immediately preceding it (this is what every
                      definition of the family does: copy(dst, src, stride) strides src, copy(dst, stride, src)
                      strides dst, copy(dst, stride_dst, src, stride)); a name ending in _dst must bind to dst.
    A memory operand without a bound stride/index is contiguous (lane k at base[k]).  A stride bound to a register or
    broadcast operand, two strides for one operand, an unbound stride -> Unfit.
  * lanes: 4 for _batch and _avx, 8 for _avx512.  An index list designates `lanes` entries whatever extent the
    declaration spells (array extents are not part of a parameter's type); a spelled extent different from the lane
    count is recorded as an oddity in the table.
  * pure register kernels (result and all inputs registers) of add/sub/mul belong to C02/C11 and are listed under
    "excluded"; the register-to-register copy is kept (it is a copy wrapper).
  * "defined": an `inline void Goldilocks::<name>(...)` with the same parameter types exists (comments stripped) in
    one of the headers included at the bottom of goldilocks_base_field.hpp.

Expected behaviour encoded in the table is the FAMILY CONVENTION only (lane k of the result = op(a_k, b_k)); it is
never adapted to what an individual definition does.
"""
import argparse
import json
import os
import re
import sys

HERE = os.path.dirname(os.path.abspath(__file__))
VERIF = os.path.dirname(HERE)
TABLE = os.path.join(HERE, "overloads_c17.json")
HEADER = "goldilocks_base_field.hpp"
FAMILIES = {"batch": 4, "avx": 4, "avx512": 8}
OPS = ("copy", "add", "sub", "mul")
SHAPE_LETTER = {"contiguous": "M", "stride": "S", "index": "I", "broadcast": "B", "register": "R"}
SHAPE_ENUM = {None: "NONE", "contiguous": "MEM", "stride": "STRIDE", "index": "INDEX", "broadcast": "BCAST", "register": "REG"}
NTU = 4


class Unfit(Exception):
    pass


def strip_comments(text):
    text = re.sub(r"/\*.*?\*/", lambda m: re.sub(r"[^\n]", " ", m.group(0)), text, flags=re.S)
    text = re.sub(r"//[^\n]*", "", text)
    return text


PARAM_RE = re.compile(r"^(?P<const>const\s+)?(?:Goldilocks::)?(?P<base>Element|__m256i|__m512i|uint64_t)\s*(?P<ptr>[*&]?)\s*"
                      r"(?P<name>[A-Za-z_]\w*)\s*(?:\[\s*(?P<ext>\w+)\s*\])?$")
EXTENTS = {"4": 4, "8": 8, "AVX_SIZE_": 4, "AVX512_SIZE_": 8, "BATCH_SIZE_": 4}


def parse_param(p):
    p = " ".join(p.split())
    m = PARAM_RE.match(p)
    if not m:
        raise Unfit("unparsable parameter '%s'" % p)
    const = bool(m.group("const"))
    base, ptr, name, ext = m.group("base"), m.group("ptr"), m.group("name"), m.group("ext")
    d = {"name": name, "text": p}
    if ext is not None:
        if base != "uint64_t" or ptr:
            raise Unfit("array parameter that is not uint64_t[N]: '%s'" % p)
        if ext not in EXTENTS:
            raise Unfit("index list with unknown extent: '%s'" % p)
        d.update(kind="index", ctype=("const uint64_t *" if const else "uint64_t *"), extent=EXTENTS[ext], const=const)
    elif base == "uint64_t":
        if ptr or const:
            raise Unfit("unexpected uint64_t parameter form: '%s'" % p)
        d.update(kind="stride", ctype="uint64_t")
    elif base == "Element":
        if ptr == "*":
            d.update(kind="in_mem" if const else "out_mem", ctype=("const Goldilocks::Element *" if const else "Goldilocks::Element *"))
        elif ptr == "&":
            if not const:
                raise Unfit("non-const Element reference: '%s'" % p)
            d.update(kind="bcast", ctype="const Goldilocks::Element &", byref=True)
        else:
            if not const:
                raise Unfit("by-value Element without const (family convention spells 'const Element'): '%s'" % p)
            d.update(kind="bcast", ctype="Goldilocks::Element", byref=False)  # top-level const is not part of the type
    else:  # registers
        if ptr != "&":
            raise Unfit("register parameter not passed by reference: '%s'" % p)
        d.update(kind="in_reg" if const else "out_reg", ctype=("const %s &" % base if const else "%s &" % base), reg=base)
    return d


def split_params(s):
    s = s.strip()
    return [x.strip() for x in s.split(",")] if s else []


def type_key(params):
    return tuple(p["ctype"] for p in params)


def included_headers(src_dir, text):
    out = []
    for m in re.finditer(r'#include\s+"([^"]+)"', text):
        p = os.path.join(src_dir, m.group(1))
        if os.path.exists(p):
            out.append(p)
    return out


def parse_definitions(src_dir, header_text):
    """set of (function name, type key) that have an inline definition in the headers included by the base header"""
    defs = set()
    files = included_headers(src_dir, header_text)
    for path in files:
        t = strip_comments(open(path).read())
        for m in re.finditer(r"\binline\s+void\s+Goldilocks::((?:copy|add|sub|mul)_(?:batch|avx512|avx))\s*\(([^)]*)\)\s*\{", t):
            try:
                ps = [parse_param(x) for x in split_params(m.group(2))]
            except Unfit:
                continue  # cannot correspond to a classified declaration
            defs.add((m.group(1), type_key(ps)))
    return defs, [os.path.basename(f) for f in files]


def classify(fname, params):
    op, fam = fname.split("_", 1)
    lanes = FAMILIES[fam]
    regname = "__m512i" if lanes == 8 else "__m256i"
    if not params:
        raise Unfit("no parameters")
    first = params[0]
    if first["kind"] not in ("out_mem", "out_reg"):
        raise Unfit("first parameter is not a result (Element* or register reference)")
    operands = [{"role": "c", "param": first, "shape": "register" if first["kind"] == "out_reg" else "contiguous"}]
    binders = []
    for idx, p in enumerate(params[1:], start=1):
        k = p["kind"]
        if k in ("out_mem", "out_reg"):
            raise Unfit("second result-like parameter '%s'" % p["text"])
        if k in ("in_mem", "bcast", "in_reg"):
            role = "ab"[len(operands) - 1] if len(operands) <= 2 else None
            if role is None:
                raise Unfit("more than two inputs")
            shape = {"in_mem": "contiguous", "bcast": "broadcast", "in_reg": "register"}[k]
            operands.append({"role": role, "param": p, "shape": shape, "pos": idx})
        else:
            binders.append((idx, p))
    operands[0]["pos"] = 0
    for o in operands:
        if "reg" in o["param"] and o["param"]["reg"] != regname:
            raise Unfit("register type %s in a %d-lane family" % (o["param"]["reg"], lanes))
    nin = len(operands) - 1
    if op == "copy":
        if nin != 1:
            raise Unfit("copy with %d inputs" % nin)
        names_ok = [r"^dst_?$", r"^src_?$"]
    else:
        if nin != 2:
            raise Unfit("%s with %d inputs" % (op, nin))
        names_ok = [r"^(c\w*|result)$", r"^(a\w*|in1)$", r"^(b\w*|in2)$"]
    for o, rx in zip(operands, names_ok):
        if not re.match(rx, o["param"]["name"]):
            raise Unfit("operand name '%s' does not match the family naming of operand %s" % (o["param"]["name"], o["role"]))
    by_role = {o["role"]: o for o in operands}
    for idx, p in binders:
        nm = p["name"]
        if op == "copy":
            prev = [o for o in operands if o["pos"] == idx - 1]
            if not prev:
                raise Unfit("stride '%s' does not directly follow an operand" % nm)
            tgt = prev[0]
            if not re.match(r"^stride(_dst)?$", nm):
                raise Unfit("unexpected stride name '%s' in the copy family" % nm)
            if nm.endswith("_dst") and tgt["role"] != "c":
                raise Unfit("stride '%s' follows the source" % nm)
        else:
            m = re.match(r"^(?:offsets?|stride)(?:(_a|1)|(_b|2)|(_c|_dst))$", nm)
            if not m:
                raise Unfit("stride/index name '%s' carries no operand suffix" % nm)
            tgt = by_role["a" if m.group(1) else "b" if m.group(2) else "c"]
        if tgt["shape"] != "contiguous" or tgt["param"]["kind"] not in ("in_mem", "out_mem"):
            raise Unfit("'%s' binds to operand %s which is %s" % (nm, tgt["role"], tgt["shape"]))
        tgt["shape"] = "stride" if p["kind"] == "stride" else "index"
        tgt["binder"] = p
        tgt["binder_pos"] = idx
    entry_ops = {}
    oddities = []
    for o in operands:
        d = {"shape": o["shape"], "param": o["param"]["name"]}
        if "binder" in o:
            d["via"] = o["binder"]["name"]
            if o["shape"] == "index":
                d["index_const"] = o["binder"]["const"]
                if o["binder"]["extent"] != lanes:
                    d["declared_extent"] = o["binder"]["extent"]
                    oddities.append("index list '%s' is spelled with extent %d in a %d-lane family (extent is not part of the type; %d entries are designated)"
                                    % (o["binder"]["name"], o["binder"]["extent"], lanes, lanes))
        if o["shape"] == "broadcast":
            d["by_reference"] = o["param"]["byref"]
        entry_ops[o["role"]] = d
    pure_reg = op != "copy" and all(o["shape"] == "register" for o in operands)
    return {"function": fname, "family": fam, "op": op, "lanes": lanes, "operands": entry_ops, "oddities": oddities,
            "_operands": operands, "_pure_reg": pure_reg}


def parse_repo(repo):
    src_dir = os.path.join(repo, "src")
    path = os.path.join(src_dir, HEADER)
    if not os.path.exists(path):
        raise Unfit("header not found: %s" % path)
    raw = open(path).read()
    text = strip_comments(raw)
    defs, deffiles = parse_definitions(src_dir, text)
    entries, excluded = [], []
    seen_ids = {}
    seen_sigs = set()
    for m in re.finditer(r"\bstatic\s+(\w[\w:\s\*&]*?)\s*\b((?:copy|add|sub|mul)_(?:batch|avx512|avx))\s*\(([^;{}]*)\)\s*;", text):
        ret, fname, plist = m.group(1).strip(), m.group(2), m.group(3)
        if ret != "void":
            raise Unfit("%s declared with return type '%s'" % (fname, ret))
        try:
            params = [parse_param(x) for x in split_params(plist)]
            e = classify(fname, params)
        except Unfit as ex:
            raise Unfit("declaration does not fit the classification rule: static void %s(%s): %s" % (fname, " ".join(plist.split()), ex))
        sig = "void Goldilocks::%s(%s)" % (fname, ", ".join(p["text"] for p in params))
        e["signature"] = sig
        e["fnptr"] = "void (*)(%s)" % ", ".join(type_key(params))
        if (fname, type_key(params)) in seen_sigs:
            raise Unfit("duplicate declaration " + sig)
        seen_sigs.add((fname, type_key(params)))
        if e["_pure_reg"]:
            excluded.append({"signature": sig, "why": "pure register kernel (properties C02 / C11)"})
            continue
        o = e["operands"]
        letters = [SHAPE_LETTER[o[r]["shape"]] for r in ("c", "a", "b") if r in o]
        oid = e["op"] + "." + ".".join(letters)
        n = seen_ids.get((e["family"], oid), 0) + 1
        seen_ids[(e["family"], oid)] = n
        e["id"] = oid if n == 1 else "%s~%d" % (oid, n)
        e["defined"] = (fname, type_key(params)) in defs
        e["_params"] = params
        entries.append(e)
    if not entries:
        raise Unfit("no copy/add/sub/mul helper declarations found in " + path)
    return entries, excluded, deffiles


def public(e):
    return {k: v for k, v in e.items() if not k.startswith("_")}


def table_of(entries, excluded):
    fams = {}
    for e in entries:
        f = fams.setdefault(e["family"], {"declared": 0, "defined": 0, "undefined": 0})
        f["declared"] += 1
        f["defined" if e["defined"] else "undefined"] += 1
    return {"property": "C17", "header": "src/" + HEADER,
            "rule": "see the module docstring of tools/gen_overloads.py",
            "counts": fams, "overloads": [public(e) for e in entries], "excluded": excluded}


# ----------------------------------------------------------------------------------------------- thunks
def thunk_code(e, n):
    lanes = e["lanes"]
    reg = "__m512i" if lanes == 8 else "__m256i"
    ld = "_mm512_loadu_si512((const void *)%s)" if lanes == 8 else "_mm256_loadu_si256((const __m256i *)%s)"
    st = "_mm512_storeu_si512((void *)%s, %s)" if lanes == 8 else "_mm256_storeu_si256((__m256i *)%s, %s)"
    pre, post, args = [], [], []
    role_of_param = {}
    for o in e["_operands"]:
        role_of_param[o["pos"]] = ("operand", o)
        if "binder" in o:
            role_of_param[o["binder_pos"]] = ("binder", o)
    for idx in range(len(e["_params"])):
        what, o = role_of_param[idx]
        r = o["role"]
        if what == "binder":
            args.append("x.s%s" % r if o["shape"] == "stride" else "x.i%s" % r)
            continue
        k = o["param"]["kind"]
        if k in ("out_mem", "in_mem"):
            args.append("x.%s" % r)
        elif k == "bcast":
            # call form in which the scalar argument is an lvalue that lives in the result array (x.bcast_alias names the operand)
            if any(oo["role"] == "c" and oo["param"]["kind"] == "out_mem" for oo in e["_operands"]):
                args.append("(x.bcast_alias == %d ? x.c[x.bcast_cell] : x.v%s)" % (1 if r == "a" else 2, r))
            else:
                args.append("x.v%s" % r)
        elif k == "in_reg":
            pre.append("    %s r%s = %s;" % (reg, r, ld % ("x.r" + r)))
            args.append("r" + r)
        elif k == "out_reg":
            pre.append("    %s r%s = %s;" % (reg, r, ld % ("x.r" + r)))
            post.append("    " + st % ("x.r" + r, "r" + r) + ";")
            args.append("r" + r)
    body = ["static void t%d(c17::Call &x)" % n, "{",
            "    typedef %s;" % e["fnptr"].replace("(*)", "(*F)", 1),
            "    F f = static_cast<F>(&Goldilocks::%s);" % e["function"]]
    body += pre
    # in-place call forms: the result register is the same object as an input register (the library calls its kernels that way)
    kinds = {role_of_param[i][1]["role"]: role_of_param[i][1]["param"]["kind"] for i in range(len(e["_params"])) if role_of_param[i][0] == "operand"}
    if kinds.get("c") == "out_reg":
        for n_alias, r in ((1, "a"), (2, "b")):
            if kinds.get(r) == "in_reg":
                aargs = ["r" + r if x == "rc" else x for x in args]
                body.append("    if (x.regalias == %d) { f(%s); %s; return; }" % (n_alias, ", ".join(aargs), st % ("x.rc", "r" + r)))
    body.append("    f(%s);" % ", ".join(args))
    body += post
    body.append("}")
    return "\n".join(body)


def cstr(s):
    return '"' + s.replace("\\", "\\\\").replace('"', '\\"') + '"'


def emit(entries, outdir, harness_dir=None):
    """writes c17_thunks_<k>.cpp (k < NTU) into outdir; returns the list of file paths"""
    harness_dir = harness_dir or os.path.join(VERIF, "harness")
    os.makedirs(outdir, exist_ok=True)
    buckets = [[] for _ in range(NTU)]
    # spread by family so that every translation unit gets a similar amount of template-free code
    for i, e in enumerate(entries):
        buckets[i % NTU].append((i, e))
    paths = []
    for k, b in enumerate(buckets):
        L = ["// GENERATED by tools/gen_overloads.py from the current goldilocks_base_field.hpp -- do not edit",
             '#include "%s"' % os.path.join(harness_dir, "wrappers17.hpp"), ""]
        rows = []
        for i, e in b:
            o = e["operands"]
            sh = lambda r: "c17::" + SHAPE_ENUM[o[r]["shape"] if r in o else None]
            need512 = e["lanes"] == 8
            fn = "nullptr"
            if e["defined"]:
                if need512:
                    L.append("#ifdef __AVX512__")
                L.append(thunk_code(e, i))
                if need512:
                    L.append("#endif")
                fn = "t%d" % i
                if need512:
                    fn = "C17_IF512(t%d)" % i
            rows.append("    {%s, %s, %s, %d, %s, %s, %s, %s, %s, %s}," % (
                cstr(e["id"]), cstr(e["family"]), cstr(e["op"]), e["lanes"], sh("c"), sh("a"), sh("b"), cstr(e["signature"]),
                "true" if e["defined"] else "false", fn))
            L.append("")
        L.append("void c17_register_%d(std::vector<c17::Ov> &v)" % k)
        L.append("{")
        L.append("    static const c17::Ov rows[] = {")
        L += rows
        L.append("    };")
        L.append("    for (const c17::Ov &r : rows) v.push_back(r);")
        L.append("}")
        p = os.path.join(outdir, "c17_thunks_%d.cpp" % k)
        with open(p, "w") as f:
            f.write("\n".join(L) + "\n")
        paths.append(p)
    return paths


def probe_source(e):
    """a program that only links if the overload has a definition"""
    return ('#include "goldilocks_base_field.hpp"\n'
            "typedef %s;\n" % e["fnptr"].replace("(*)", "(*F)", 1) +
            "volatile void *sink;\n"
            "int main() { F f = static_cast<F>(&Goldilocks::%s); sink = (void *)f; return 0; }\n" % e["function"])


def load_table():
    with open(TABLE) as f:
        return json.load(f)


def compare(current, committed):
    """list of human-readable differences between the table parsed now and the committed one"""
    diffs = []

    def norm(sig):
        # how a value parameter is passed (by value / by const reference), const qualifiers and parameter names are spelling, not shape
        inner = sig[sig.index("(") + 1:sig.rindex(")")]
        ps = []
        for prm in inner.split(","):
            prm = prm.replace("const ", "").replace("&", " ").strip()
            prm = prm.replace("*", " * ")
            toks = prm.split()
            arr = ""
            if toks and "[" in toks[-1]:
                arr = toks[-1][toks[-1].index("["):]
                toks[-1] = toks[-1][:toks[-1].index("[")]
            if len(toks) > 1 and toks[-1] != "*":
                toks = toks[:-1]  # drop the parameter name
            ps.append(" ".join(toks) + arr)
        return sig[:sig.index("(")] + "(" + ", ".join(ps) + ")"

    def sem(e):
        d = {k: v for k, v in e.items() if k not in ("signature", "fnptr")}
        d["operands"] = {r: {k: v for k, v in o.items() if k not in ("param", "by_reference")} for r, o in e.get("operands", {}).items()}
        return d

    cur = {(e["family"], norm(e["signature"]), e["id"]): sem(e) for e in current["overloads"]}
    com = {(e["family"], norm(e["signature"]), e["id"]): sem(e) for e in committed.get("overloads", [])}
    for k in sorted(set(cur) - set(com)):
        diffs.append("declared now but not in the committed table: " + k[1])
    for k in sorted(set(com) - set(cur)):
        diffs.append("in the committed table but no longer declared: " + k[1])
    for k in sorted(set(cur) & set(com)):
        if cur[k] != com[k]:
            what = [f for f in sorted(set(cur[k]) | set(com[k])) if cur[k].get(f) != com[k].get(f)]
            diffs.append("entry changed (%s): %s" % (", ".join(what), k[1]))
    if [e["signature"] for e in current["excluded"]] != [e["signature"] for e in committed.get("excluded", [])]:
        diffs.append("set of excluded pure register kernels changed")
    return diffs


def main():
    ap = argparse.ArgumentParser()
    ap.add_argument("--repo", default=os.environ.get("VERIF_REPO", "/repo"))
    ap.add_argument("--write-table", action="store_true", help="rewrite the committed table from the current header")
    ap.add_argument("--check", action="store_true", help="compare the current header with the committed table (exit 2 on any difference)")
    ap.add_argument("--emit", metavar="DIR", help="write the thunk translation units into DIR")
    ap.add_argument("--summary", action="store_true")
    a = ap.parse_args()
    try:
        entries, excluded, deffiles = parse_repo(a.repo)
    except Unfit as ex:
        print("INCONCLUSIVE: " + str(ex))
        return 2
    tab = table_of(entries, excluded)
    if a.write_table:
        with open(TABLE, "w") as f:
            json.dump(tab, f, indent=1)
            f.write("\n")
        print("wrote %s: %d overloads" % (TABLE, len(entries)))
    if a.check:
        diffs = compare(tab, load_table())
        if diffs:
            print("INCONCLUSIVE: the header's overload set differs from the committed table:")
            for d in diffs:
                print("  " + d)
            return 2
        print("table consistent: %d overloads" % len(entries))
    if a.emit:
        for p in emit(entries, a.emit):
            print("emitted " + p)
    if a.summary or not (a.write_table or a.check or a.emit):
        print(json.dumps(tab["counts"], indent=1))
        for e in entries:
            print("%-7s %-14s %s %s%s" % (e["family"], e["id"], "def  " if e["defined"] else "UNDEF", e["signature"],
                                       ("   !! " + "; ".join(e["oddities"])) if e["oddities"] else ""))
        print("excluded:", *[x["signature"] for x in excluded], sep="\n  ")
        print("definition files:", deffiles)
    return 0


if __name__ == "__main__":
    sys.exit(main())
