#!/usr/bin/env python3
"""PTX asm rewriter and device-table extractor for property C20 (python3 standard library only).

  ptx_rewrite.py --in <gl64_t.cuh> --out <gl64_t_host.hpp>
                 [--tables-in <file.cuh|file.cu> ...] [--tables-out <gpu_tables_gen.hpp>]

1. Header rewrite.  Copies the CUDA header verbatim, except that every inline-asm statement
       asm [volatile] ( "text" "more text" : outputs : inputs [: clobbers] ) ;
   becomes ONE C++ statement
       ptx::exec("text more text", {ptx::out<'+','l'>(lvalue), ...}, {ptx::in<'r'>(expr), ...});
   whose first argument is the unchanged PTX text (lib/ptx_interp.hpp executes it).  A prelude
   neutralises the CUDA keywords (__device__, __constant__, __forceinline__, __noinline__, __host__,
   __global__) and provides threadIdx/blockIdx/blockDim/gridDim stubs; a postlude removes the macros
   again and lists every template so that the harness can validate all of them, executed or not.
   The header's own `#define inline ...` / `#define asm ...` lines are preprocessor lines and are
   copied untouched (after the rewrite no `asm` token is left for the second one to act on).
   A missing comma between two operands ("+l"(tmp) "=r"(carry)) is tolerated.
2. Tables.  Finds the definitions  uint64_t omegas[33] / omegas_inv[33] / domain_size_inverse[33]
   in the given files and writes them as plain constants into a generated header.

Anything that cannot be parsed with certainty makes the tool exit non-zero with a message; the
check then reports INCONCLUSIVE.  Exit codes: 0 ok, 3 parse problem, 4 usage / IO problem."""
import argparse
import hashlib
import os
import re
import sys

ASM_WORDS = ("asm", "__asm__", "__asm")
QUALIFIERS = ("volatile", "__volatile__", "__volatile", "inline", "__inline__")
TABLES = ("omegas", "omegas_inv", "domain_size_inverse")
TABLE_LEN = 33


class ParseError(Exception):
    pass


def line_of(text, pos):
    return text.count("\n", 0, pos) + 1


class Scanner:
    def __init__(self, text, name):
        self.t = text
        self.n = len(text)
        self.name = name

    def err(self, pos, msg):
        raise ParseError("%s:%d: %s" % (self.name, line_of(self.t, pos), msg))

    # --- lexical helpers -------------------------------------------------------------------
    def skip_ws_comments(self, i):
        t, n = self.t, self.n
        while i < n:
            c = t[i]
            if c in " \t\r\n":
                i += 1
            elif t.startswith("//", i):
                j = t.find("\n", i)
                i = n if j < 0 else j
            elif t.startswith("/*", i):
                j = t.find("*/", i + 2)
                if j < 0:
                    self.err(i, "unterminated comment")
                i = j + 2
            elif c == "\\" and i + 1 < n and t[i + 1] == "\n":
                i += 2
            else:
                break
        return i

    def string_literal(self, i):
        """t[i] == '"'. Returns (decoded value, index after closing quote)."""
        t, n = self.t, self.n
        if i > 0 and t[i - 1] in "RLuU8" and (i < 2 or not (t[i - 2].isalnum() or t[i - 2] == "_")):
            self.err(i, "prefixed/raw string literals are not supported")
        j = i + 1
        val = []
        while True:
            if j >= n or t[j] == "\n":
                self.err(i, "unterminated string literal")
            c = t[j]
            if c == '"':
                return "".join(val), j + 1
            if c == "\\":
                if j + 1 >= n:
                    self.err(i, "unterminated string literal")
                e = t[j + 1]
                simple = {"n": "\n", "t": "\t", "\\": "\\", '"': '"', "'": "'", "0": "\0"}
                if e == "\n":
                    j += 2
                    continue
                if e not in simple:
                    self.err(j, "unsupported escape sequence \\%s in string literal" % e)
                val.append(simple[e])
                j += 2
                continue
            val.append(c)
            j += 1

    def char_literal_end(self, i):
        t, n = self.t, self.n
        j = i + 1
        while j < n and t[j] != "'":
            if t[j] == "\n":
                self.err(i, "unterminated character literal")
            j += 2 if t[j] == "\\" else 1
        if j >= n:
            self.err(i, "unterminated character literal")
        return j + 1

    def balanced(self, i):
        """t[i] == '('. Returns index after the matching ')'."""
        t, n = self.t, self.n
        depth = 0
        j = i
        while j < n:
            c = t[j]
            if c == '"':
                _, j = self.string_literal(j)
                continue
            if c == "'":
                j = self.char_literal_end(j)
                continue
            if t.startswith("//", j) or t.startswith("/*", j):
                j = self.skip_ws_comments(j)
                continue
            if c == "(":
                depth += 1
            elif c == ")":
                depth -= 1
                if depth == 0:
                    return j + 1
            elif c in ";{}" and depth > 0 and c == ";":
                self.err(i, "';' inside an asm operand expression")
            j += 1
        self.err(i, "unbalanced parenthesis")

    # --- asm statement ---------------------------------------------------------------------
    def operand_list(self, i, is_output):
        """Parses  "c"(expr) [,] "c"(expr) ...  up to a ':' or ')' at depth 0. Returns (list, index)."""
        ops = []
        t = self.t
        while True:
            i = self.skip_ws_comments(i)
            if i >= self.n:
                self.err(i, "unterminated asm statement")
            c = t[i]
            if c == ":" or c == ")":
                return ops, i
            if c == ",":
                i += 1
                continue
            if c == "[":
                self.err(i, "symbolic asm operand names are not supported")
            if c != '"':
                self.err(i, "expected an operand constraint string, found %r" % t[i:i + 12])
            cons, i = self.string_literal(i)
            i = self.skip_ws_comments(i)
            if i >= self.n or t[i] != "(":
                self.err(i, "expected '(' after operand constraint \"%s\"" % cons)
            e = self.balanced(i)
            expr = t[i + 1:e - 1].strip()
            if not expr:
                self.err(i, "empty operand expression")
            if is_output:
                m = re.fullmatch(r"([+=])&?([rlh])", cons)
                if not m:
                    self.err(i, "unsupported output constraint \"%s\"" % cons)
                ops.append((m.group(1), m.group(2), expr))
            else:
                m = re.fullmatch(r"([rlh])", cons)
                if not m:
                    self.err(i, "unsupported input constraint \"%s\"" % cons)
                ops.append((None, m.group(1), expr))
            i = e

    def asm_statement(self, i):
        """i = index just after the asm keyword. Returns (replacement text, template, index after ';')."""
        t = self.t
        start = i
        while True:
            i = self.skip_ws_comments(i)
            m = re.match(r"[A-Za-z_]\w*", t[i:i + 32])
            if m and m.group(0) in QUALIFIERS:
                i += len(m.group(0))
                continue
            if m:
                self.err(i, "unsupported asm qualifier '%s'" % m.group(0))
            break
        if i >= self.n or t[i] != "(":
            self.err(start, "expected '(' after asm")
        i += 1
        parts = []
        while True:
            i = self.skip_ws_comments(i)
            if i < self.n and t[i] == '"':
                s, i = self.string_literal(i)
                parts.append(s)
            else:
                break
        if not parts:
            self.err(start, "asm statement without a template string")
        tmpl = "".join(parts)
        sections = []
        while True:
            i = self.skip_ws_comments(i)
            if i >= self.n:
                self.err(start, "unterminated asm statement")
            if t[i] == ")":
                i += 1
                break
            if t[i] != ":":
                self.err(i, "unexpected text %r in asm statement" % t[i:i + 12])
            i += 1
            k = len(sections)
            if k == 0:
                ops, i = self.operand_list(i, True)
                sections.append(ops)
            elif k == 1:
                ops, i = self.operand_list(i, False)
                sections.append(ops)
            elif k == 2:
                # clobbers: only "memory" is accepted (the interpreter has no memory operands)
                clob = []
                while True:
                    i = self.skip_ws_comments(i)
                    if t[i] == '"':
                        s, i = self.string_literal(i)
                        clob.append(s)
                    elif t[i] == ",":
                        i += 1
                    else:
                        break
                for c in clob:
                    if c != "memory":
                        self.err(i, "unsupported clobber \"%s\"" % c)
                sections.append(clob)
            else:
                self.err(i, "asm goto / too many ':' sections")
        i = self.skip_ws_comments(i)
        if i >= self.n or t[i] != ";":
            self.err(start, "expected ';' after asm(...)")
        i += 1
        outs = sections[0] if len(sections) > 0 else []
        ins = sections[1] if len(sections) > 1 else []
        for ch in tmpl:
            if ord(ch) < 0x20 and ch not in "\n\t" or ord(ch) > 0x7E:
                self.err(start, "non-printable character in asm template")
        # placeholder sanity: every %N must have an operand
        for m in re.finditer(r"%(\d+)", tmpl):
            if int(m.group(1)) >= len(outs) + len(ins):
                self.err(start, "asm template uses %%%s but the statement has %d operands" % (m.group(1), len(outs) + len(ins)))
        o = ", ".join("ptx::out<'%s','%s'>(%s)" % (rw, cl, ex) for rw, cl, ex in outs)
        n_ = ", ".join("ptx::in<'%s'>(%s)" % (cl, ex) for _, cl, ex in ins)
        rep = "ptx::exec(%s, {%s}, {%s});" % (c_string(tmpl), o, n_)
        return rep, tmpl, i, len(outs), len(ins)


def c_string(s):
    out = ['"']
    for ch in s:
        if ch == "\\":
            out.append("\\\\")
        elif ch == '"':
            out.append('\\"')
        elif ch == "\n":
            out.append("\\n")
        elif ch == "\t":
            out.append("\\t")
        else:
            out.append(ch)
    out.append('"')
    return "".join(out)


PRELUDE = r"""// GENERATED by /verif/tools/ptx_rewrite.py -- do not edit.
// source: %(src)s  sha256=%(sha)s  asm statements rewritten: %(nasm)d
#ifndef VERIF_GL64_T_HOST_GENERATED
#define VERIF_GL64_T_HOST_GENERATED
#include <cstdint>
#include <cstddef>
#include <cassert>
#include <type_traits>
#include <initializer_list>
#include "ptx_interp.hpp"
#ifndef __USE_CUDA__
#error "compile the rewritten header with -D__USE_CUDA__"
#endif
#ifndef __CUDA_ARCH__
#error "compile the rewritten header with -D__CUDA_ARCH__=<n>"
#endif
// ---- CUDA keyword stubs (removed again at the end of this file)
#define __device__
#define __constant__
#define __host__
#define __global__
#define __shared__
#define __forceinline__
#define __noinline__
namespace ptx_cuda_stub { struct dim3_t { unsigned x = 0, y = 0, z = 0; }; }
static thread_local ptx_cuda_stub::dim3_t threadIdx, blockIdx;
static thread_local ptx_cuda_stub::dim3_t blockDim, gridDim;
// ---- rewritten copy of the header starts here --------------------------------------------------
#line 1 "%(src)s"
"""

POSTLUDE = r"""
// ---- end of the rewritten copy -------------------------------------------------------------------
#undef __device__
#undef __constant__
#undef __host__
#undef __global__
#undef __shared__
#undef __forceinline__
#undef __noinline__
#ifdef inline
#error "the header left 'inline' defined as a macro"
#endif
namespace ptx_gen {
static const char *const all_templates[] = {
%(tmpls)s
};
static const unsigned n_templates = %(nasm)d;
static const char source_path[] = %(srcq)s;
static const char source_sha256[] = "%(sha)s";
}
#endif
"""


def rewrite_header(text, name):
    sc = Scanner(text, name)
    t, n = text, len(text)
    out = []
    templates = []
    i = 0
    at_line_start = True
    stats = {"asm": 0, "operands": 0}
    while i < n:
        c = t[i]
        if c == "\n":
            out.append(c)
            i += 1
            at_line_start = True
            continue
        if c in " \t\r":
            out.append(c)
            i += 1
            continue
        if at_line_start and c == "#":
            # preprocessor line (with continuations), copied verbatim
            j = i
            while True:
                k = t.find("\n", j)
                if k < 0:
                    k = n
                    break
                if k > 0 and t[k - 1] == "\\":
                    j = k + 1
                    continue
                break
            line = t[i:k]
            if re.match(r"#\s*(define|if|ifdef|ifndef|elif|else|endif|undef|include|pragma|error|line)\b", line) is None:
                sc.err(i, "unknown preprocessor directive")
            if re.match(r"#\s*define\b", line) and re.search(r"\b(asm|__asm__)\s*\(", line):
                sc.err(i, "asm statement inside a macro definition cannot be rewritten")
            out.append(line)
            i = k
            continue
        at_line_start = False
        if t.startswith("//", i):
            k = t.find("\n", i)
            k = n if k < 0 else k
            out.append(t[i:k])
            i = k
            continue
        if t.startswith("/*", i):
            k = t.find("*/", i + 2)
            if k < 0:
                sc.err(i, "unterminated comment")
            out.append(t[i:k + 2])
            i = k + 2
            continue
        if c == '"':
            _, k = sc.string_literal(i)
            out.append(t[i:k])
            i = k
            continue
        if c == "'":
            if i > 0 and t[i - 1].isalnum() and i + 1 < n and t[i + 1].isalnum() and re.search(r"\d[\dA-Fa-f']*$", t[max(0, i - 24):i]):
                out.append(c)  # digit separator
                i += 1
                continue
            k = sc.char_literal_end(i)
            out.append(t[i:k])
            i = k
            continue
        if c.isalpha() or c == "_":
            m = re.match(r"[A-Za-z_]\w*", t[i:])
            w = m.group(0)
            if w in ASM_WORDS:
                rep, tmpl, k, no, ni = sc.asm_statement(i + len(w))
                nl = t.count("\n", i, k)
                out.append(rep + "\n" * nl)
                if nl:
                    at_line_start = True
                templates.append(tmpl)
                stats["asm"] += 1
                stats["operands"] += no + ni
                i = k
                continue
            out.append(w)
            i += len(w)
            continue
        out.append(c)
        i += 1
    if stats["asm"] == 0:
        raise ParseError("%s: no asm statement found (wrong file?)" % name)
    return "".join(out), templates, stats


# ------------------------------------------------------------------------------------------ tables
def strip_comments(s):
    s = re.sub(r"/\*.*?\*/", " ", s, flags=re.S)
    s = re.sub(r"//[^\n]*", " ", s)
    return s


def parse_int_literal(tok, where):
    m = re.fullmatch(r"(0[xX][0-9a-fA-F']+|0[bB][01']+|[0-9][0-9']*)([uUlL]*)", tok)
    if not m:
        raise ParseError("%s: table entry %r is not a plain integer literal" % (where, tok))
    body = m.group(1).replace("'", "")
    suf = m.group(2).lower()
    if suf not in ("", "u", "l", "ul", "lu", "ll", "ull", "llu"):
        raise ParseError("%s: bad integer suffix in %r" % (where, tok))
    if body[:2] in ("0x", "0X"):
        v = int(body, 16)
    elif body[:2] in ("0b", "0B"):
        v = int(body[2:], 2)
    elif len(body) > 1 and body[0] == "0":
        v = int(body, 8)
    else:
        v = int(body, 10)
    if v >= 1 << 64:
        raise ParseError("%s: table entry %r does not fit in 64 bits" % (where, tok))
    return v


def extract_tables(paths):
    found = {}
    for p in paths:
        try:
            raw = open(p).read()
        except OSError as e:
            raise ParseError("cannot read %s: %s" % (p, e))
        txt = strip_comments(raw)
        for name in TABLES:
            for m in re.finditer(r"\buint64_t\s+%s\s*\[\s*([^\]]*)\]\s*=\s*\{([^{}]*)\}\s*;" % re.escape(name), txt):
                if name in found:
                    raise ParseError("table %s is defined more than once (%s and %s)" % (name, found[name][2], p))
                decl = m.group(1).strip()
                if decl != "" and decl != str(TABLE_LEN):
                    raise ParseError("%s: table %s is declared with size [%s], expected [%d]" % (p, name, decl, TABLE_LEN))
                toks = [x.strip() for x in m.group(2).split(",")]
                if toks and toks[-1] == "":
                    toks.pop()  # trailing comma
                vals = [parse_int_literal(x, "%s:%s[%d]" % (p, name, k)) for k, x in enumerate(toks)]
                if len(vals) != TABLE_LEN:
                    raise ParseError("%s: table %s has %d entries, expected exactly %d" % (p, name, len(vals), TABLE_LEN))
                # the definition must be a device constant table, not something else of the same name
                head = txt[max(0, m.start() - 80):m.start()]
                quals = re.findall(r"__\w+__", head.split(";")[-1].split("}")[-1])
                found[name] = (vals, quals, p)
    missing = [nm for nm in TABLES if nm not in found]
    if missing:
        raise ParseError("device table(s) not found in %s: %s" % (", ".join(paths), ", ".join(missing)))
    return found


def tables_header(found):
    lines = ["// GENERATED by /verif/tools/ptx_rewrite.py -- do not edit.", "#pragma once", "#include <cstdint>", "namespace gpu_tables {",
             "static const unsigned table_len = %d;" % TABLE_LEN]
    for name in TABLES:
        vals, quals, p = found[name]
        lines.append("// %s from %s (%s)" % (name, p, " ".join(quals) or "no CUDA qualifiers"))
        lines.append("static const uint64_t %s[%d] = {" % (name, TABLE_LEN))
        for v in vals:
            lines.append("    0x%016xULL," % v)
        lines.append("};")
        lines.append("static const char %s_source[] = %s;" % (name, c_string(p)))
    lines.append("}")
    return "\n".join(lines) + "\n"


def main():
    repo = os.environ.get("VERIF_REPO", "/repo")
    ap = argparse.ArgumentParser()
    ap.add_argument("--in", dest="inp", default=os.path.join(repo, "src", "gl64_t.cuh"))
    ap.add_argument("--out", required=True)
    ap.add_argument("--tables-in", nargs="*", default=None)
    ap.add_argument("--tables-out", default=None)
    a = ap.parse_args()
    try:
        raw = open(a.inp, "rb").read()
    except OSError as e:
        print("ptx_rewrite: cannot read %s: %s" % (a.inp, e), file=sys.stderr)
        return 4
    try:
        text = raw.decode("utf-8")
        sha = hashlib.sha256(raw).hexdigest()
        body, templates, stats = rewrite_header(text, a.inp)
        if "\n#line" in body:
            raise ParseError("%s: #line directives in the source are not supported" % a.inp)
        srcq = c_string(a.inp)
        gen = PRELUDE % {"src": a.inp.replace("\\", "/").replace('"', ""), "sha": sha, "nasm": stats["asm"]}
        gen += body
        gen += POSTLUDE % {"tmpls": "\n".join("    %s," % c_string(x) for x in templates), "nasm": stats["asm"], "srcq": srcq, "sha": sha}
        with open(a.out, "w") as f:
            f.write(gen)
        distinct = sorted(set(templates))
        opcodes = set()
        for tm in distinct:
            for ins in re.split(r";", re.sub(r"\{[^{}]*%[^{}]*\}", "VEC", tm)):
                ins = ins.strip().lstrip("{}").strip()
                ins = re.sub(r"^@!?%\w+\s*", "", ins)
                m = re.match(r"[.\w]+", ins)
                if m:
                    opcodes.add(m.group(0))
        print("ptx_rewrite: %s: %d asm statements (%d distinct templates, %d operands) -> %s" % (a.inp, stats["asm"], len(distinct), stats["operands"], a.out))
        print("ptx_rewrite: opcodes: " + " ".join(sorted(opcodes)))
        if a.tables_out:
            tin = a.tables_in
            if not tin:
                d = os.path.dirname(os.path.abspath(a.inp))
                tin = sorted(os.path.join(d, x) for x in os.listdir(d) if x.endswith((".cu", ".cuh")))
            found = extract_tables(tin)
            with open(a.tables_out, "w") as f:
                f.write(tables_header(found))
            print("ptx_rewrite: tables %s (%d entries each) from %s -> %s" % (", ".join(TABLES), TABLE_LEN,
                  ", ".join(sorted(set(v[2] for v in found.values()))), a.tables_out))
    except ParseError as e:
        print("ptx_rewrite: PARSE FAILURE: %s" % e, file=sys.stderr)
        for p in (a.out, a.tables_out):
            if p and os.path.exists(p):
                os.unlink(p)
        return 3
    except UnicodeDecodeError as e:
        print("ptx_rewrite: PARSE FAILURE: %s" % e, file=sys.stderr)
        return 3
    return 0


if __name__ == "__main__":
    sys.exit(main())
