#!/usr/bin/env python3
"""Regenerates the table of DESIGN.md section 7.4 from /verif/seeded/*/meta.json (between the table header line and the first blank
line after it).  usage: tools/gen_seeded_table.py [--write]"""
import glob, json, os, sys

VERIF = os.path.dirname(os.path.dirname(os.path.abspath(__file__)))


def rows():
    out = []
    for d in sorted(glob.glob(os.path.join(VERIF, "seeded", "*", "meta.json"))):
        m = json.load(open(d))
        own = m["property"]
        chk = m.get("checks_run_against_it", {})
        caught = []
        order = [own] + sorted(k for k in chk if k != own)
        for k in order:
            v = chk.get(k)
            if v and v["exit"] == 1:
                key = (v["first_keys"] or ["?"])[0][:60]
                caught.append("%s%s (%d keys, e.g. `%s`)" % (k, " (thorough tier)" if m.get("checks_tier") == "thorough" and k == own else "", v["violations"], key))
        if not caught:
            caught = ["— (not reported; see the notes below the table)"]
        elif own not in [c.split(" ")[0] for c in caught]:
            caught.append("not by %s" % own)
        out.append("| %s | %s | %s |" % (m["id"], m.get("needs_to_manifest", "?").replace("|", "\\|"), "; ".join(caught)))
    return out


def main():
    r = rows()
    if "--write" not in sys.argv:
        print("\n".join(r))
        return
    p = os.path.join(VERIF, "DESIGN.md")
    L = open(p).read().split("\n")
    i = next(k for k, l in enumerate(L) if l.startswith("| id | what it needs in order to manifest"))
    j = i + 2
    while j < len(L) and L[j].startswith("|"):
        j += 1
    L[i + 2:j] = r
    open(p, "w").write("\n".join(L))
    print("%d rows written" % len(r))


if __name__ == "__main__":
    main()
