#!/usr/bin/env python3
"""C16 overload table generator.

Parses the batched / AVX2 / AVX-512 add*/sub*/mul* families and the planar<->interleaved copies of class
Goldilocks3 from the CURRENT <repo>/src/goldilocks_cubic_extension.hpp, classifies every parameter of every
overload into an operand shape by a mechanical rule (below), and
  --write-table     rewrites the committed table  /verif/tools/overloads_c16.json
  --check           re-parses the header and compares it with the committed table (exit 0 same, 2 differs/unfit)
  --emit DIR [-k N] writes N C++ thunk files (thunks16_<i>.cpp) into DIR; one thunk per overload, the overload is
                    selected with a static_cast to the exact function-pointer type
  --list            prints one line per overload
Nothing is ever skipped or guessed: a declaration of one of the families that does not fit the rule is a
problem, and any problem makes the check inconclusive.

THE RULE
  name      <op>[<ka>[c]<kb>[c]]_<batch|avx|avx512>, op in add/sub/mul/copy.  ka/kb: 3 = extension element
            (coefficients of 1, x, x^2), 1 = base-field element, a trailing c = that operand is one constant shared
            by all lanes.  No digits = extension op extension, both per lane.  batch/avx: 4 lanes, avx512: 8 lanes.
  roles     parameters are bound to output / operand a / operand b / challenge sums by NAME:
              output  result | c | dst (memory)   c_ (register triple)   c0_ c1_ c2_ (three registers)
              a       a | src (memory or by value)   a_ (one register = 4/8 base elements, or a register triple)
                      a0_ a1_ a2_ (three registers)
              b       b (memory, by value, or Element&)   b_ (register triple)   b0_ b1_ b2_
              sums    "Goldilocks::Element b_[3]" (memory: b0+b1, b0+b2, b1+b2 of ONE element, so operand b is then the
                      constant challenge although the name carries no c)   aux0_ aux1_ aux2_ (registers, per lane)
              strides stride_c -> output;  stride_a | offset_a | stride0 -> a;  stride_b | offset_b | stride1 -> b;
                      a bare "stride" -> the only per-lane memory operand (anything else does not fit).
                      integer scalar = uniform stride (lane k at k*stride), array [4] / [AVX512_SIZE_] = per-lane
                      start offsets.  A memory output may be followed by its stride_c; no other output takes a stride.
            order must be: output parameters, then a, then b (strides / sums anywhere after their operand).
  layout    (from the parameter TYPE)
              Goldilocks::Element *            memory.  extension per lane: INTERLEAVED, lane k at p[off_k + i], i=0..2,
                                               off_k = k*stride (default stride FIELD_EXTENSION = 3) or index[k];
                                               base per lane: p[off_k], default stride 1;
                                               constant extension: p[0..2], takes no stride
              Goldilocks::Element (by value)   constant base element (name must say 1c)
              Element &                        constant extension element (name must say 3c)
              __m256i / __m512i (one)          base element per lane (name must say 1 without c)
              Element_avx / Element_avx512     PLANAR register triple: register i holds coefficient i of the 4/8 lanes;
              or three separate registers      if the name says 3c for that operand the triple holds the constant
                                               broadcast to every lane
  semantics element k of the result = scalar extension operation on the k-th operands, a base operand v is
            embedded as (v,0,0); copy: result = a.
"""
import argparse
import hashlib
import json
import os
import re
import sys

VERIF = os.path.dirname(os.path.dirname(os.path.abspath(__file__)))
TABLE = os.path.join(VERIF, "tools", "overloads_c16.json")
HEADER_REL = os.path.join("src", "goldilocks_cubic_extension.hpp")

# every member of the add / sub / mul / copy families with a batched/vector suffix must fit the rule; a member with such a
# suffix whose name does not start with one of the four operations (an internal helper a refactoring introduced) is not an
# overload of the families the property is about: it is not called directly, but everything that calls it still is
FAMILY_RE = re.compile(r"^(add|sub|mul|copy)\w*_(batch|avx512|avx)$")
NAME_RE = re.compile(r"^(add|sub|mul|copy)(?:([13])(c?)([13])(c?))?_(batch|avx512|avx)$")
OPCH = {"add": "+", "sub": "-", "mul": "*", "copy": "="}


def default_repo():
    return os.environ.get("VERIF_REPO", "/repo")


# ------------------------------------------------------------------------------------------------ lexical part
def strip_comments(src):
    out = []
    i, n = 0, len(src)
    while i < n:
        c = src[i]
        if src.startswith("//", i):
            j = src.find("\n", i)
            i = n if j < 0 else j
        elif src.startswith("/*", i):
            j = src.find("*/", i + 2)
            seg = src[i:(n if j < 0 else j + 2)]
            out.append("\n" * seg.count("\n"))
            i = n if j < 0 else j + 2
        elif c == '"':
            j = i + 1
            while j < n and src[j] != '"':
                j += 2 if src[j] == "\\" else 1
            out.append('""')
            i = j + 1
        elif c == "'":
            j = i + 1
            while j < n and src[j] != "'":
                j += 2 if src[j] == "\\" else 1
            out.append("' '")
            i = j + 1
        else:
            out.append(c)
            i += 1
    return "".join(out)


def class_members(src):
    """Yield (header_text, line, guards) for every member declaration/definition at class level of Goldilocks3."""
    m = re.search(r"\bclass\s+Goldilocks3\b[^;{]*\{", src)
    if not m:
        raise ValueError("class Goldilocks3 not found")
    i = m.end()
    depth = 1
    n = len(src)
    start = i
    guards = []
    line = src.count("\n", 0, i) + 1
    bol = True
    while i < n and depth > 0:
        c = src[i]
        if c == "\n":
            line += 1
            bol = True
            i += 1
            continue
        if bol and c in " \t":
            i += 1
            continue
        if bol and c == "#":
            j = src.find("\n", i)
            j = n if j < 0 else j
            d = src[i:j].strip()
            if depth == 1:
                mm = re.match(r"#\s*(ifdef|ifndef|if|else|elif|endif)\b\s*(.*)$", d)
                if mm:
                    k, arg = mm.group(1), mm.group(2).strip()
                    if k == "ifdef":
                        guards.append(arg)
                    elif k == "ifndef":
                        guards.append("!" + arg)
                    elif k == "if":
                        guards.append("(" + arg + ")")
                    elif k in ("else", "elif"):
                        guards.append("?" + (guards.pop() if guards else ""))
                    elif k == "endif" and guards:
                        guards.pop()
                # blank the directive so that it is not part of a header text
                src = src[:i] + " " * (j - i) + src[j:]
            i = j
            continue
        bol = False
        if c == "{":
            if depth == 1:
                yield src[start:i], src.count("\n", 0, start) + 1, list(guards)
            depth += 1
        elif c == "}":
            depth -= 1
            if depth == 1:
                start = i + 1
        elif c == ";" and depth == 1:
            yield src[start:i], src.count("\n", 0, start) + 1, list(guards)
            start = i + 1
        elif c == ":" and depth == 1 and re.search(r"\b(public|private|protected)\s*$", src[start:i]):
            start = i + 1
        i += 1


def split_params(s):
    out, depth, cur = [], 0, ""
    for ch in s:
        if ch in "(<[":
            depth += 1
        elif ch in ")>]":
            depth -= 1
        if ch == "," and depth == 0:
            out.append(cur)
            cur = ""
        else:
            cur += ch
    if cur.strip():
        out.append(cur)
    return [re.sub(r"\s+", " ", p).strip() for p in out]


PARAM_RE = re.compile(
    r"^(?P<const>const\s+)?(?P<type>Goldilocks::Element|Goldilocks3::Element_avx512|Goldilocks3::Element_avx|Goldilocks3::Element|"
    r"Element_avx512|Element_avx|Element|__m256i|__m512i|uint64_t|uint32_t)\s*(?P<ind>[&*])?\s*(?P<name>[A-Za-z_]\w*)\s*(?:\[\s*(?P<dim>\w+)\s*\])?$")

CANON_TYPE = {"Element": "Goldilocks3::Element", "Element_avx": "Goldilocks3::Element_avx", "Element_avx512": "Goldilocks3::Element_avx512"}


class Unfit(Exception):
    pass


def parse_param(text):
    m = PARAM_RE.match(text)
    if not m:
        raise Unfit("parameter '%s' has a type outside the rule" % text)
    t = CANON_TYPE.get(m.group("type"), m.group("type"))
    d = {"text": text, "const": bool(m.group("const")), "type": t, "ind": m.group("ind") or "", "name": m.group("name"), "dim": m.group("dim")}
    c = "const " if d["const"] else ""
    # function-pointer parameter type (arrays decay)
    if d["dim"] is not None:
        if d["ind"]:
            raise Unfit("parameter '%s': array of pointers/references" % text)
        d["ptype"] = c + t + " *"
    elif t in ("Goldilocks3::Element_avx", "Goldilocks3::Element_avx512", "Goldilocks3::Element") and not d["ind"]:
        base = {"Goldilocks3::Element_avx": "__m256i", "Goldilocks3::Element_avx512": "__m512i", "Goldilocks3::Element": "Goldilocks::Element"}[t]
        d["ptype"] = c + base + " *"
    else:
        d["ptype"] = c + t + ((" " + d["ind"]) if d["ind"] else "")
    # atom
    if t == "Goldilocks::Element":
        if d["dim"] is not None:
            d["atom"] = "GE_ARR"
        elif d["ind"] == "*":
            d["atom"] = "GE_PTR"
        elif d["ind"] == "":
            d["atom"] = "GE_VAL"
        else:
            raise Unfit("parameter '%s': reference to a base element" % text)
    elif t == "Goldilocks3::Element":
        if d["ind"] == "&" and d["dim"] is None:
            d["atom"] = "E3_REF"
        else:
            raise Unfit("parameter '%s': extension element not passed by reference" % text)
    elif t in ("Goldilocks3::Element_avx", "Goldilocks3::Element_avx512"):
        if d["ind"] in ("", "&") and d["dim"] is None:
            d["atom"] = "TRIPLE"
            d["regbits"] = 256 if t.endswith("_avx") else 512
        else:
            raise Unfit("parameter '%s': register triple passed in an unexpected way" % text)
    elif t in ("__m256i", "__m512i"):
        if d["ind"] in ("", "&") and d["dim"] is None:
            d["atom"] = "REG"
            d["regbits"] = 256 if t == "__m256i" else 512
        else:
            raise Unfit("parameter '%s': register passed in an unexpected way" % text)
    else:  # integers
        if d["ind"]:
            raise Unfit("parameter '%s': pointer/reference to an integer" % text)
        d["atom"] = "INT_ARR" if d["dim"] is not None else "INT"
    return d


# ------------------------------------------------------------------------------------------------ classification
OUT_NAMES = {"result", "c", "dst", "c_", "c0_", "c1_", "c2_"}
A_NAMES = {"a", "src", "a_", "a0_", "a1_", "a2_"}
B_NAMES = {"b", "b_", "b0_", "b1_", "b2_"}
SUM_REG_NAMES = ["aux0_", "aux1_", "aux2_"]
STRIDE_ROLE = {"stride_c": "out", "stride_a": "a", "offset_a": "a", "stride0": "a", "stride_b": "b", "offset_b": "b", "stride1": "b", "stride": "?"}


def classify(name, params, lanes_expected=None):
    m = NAME_RE.match(name)
    if not m:
        raise Unfit("name '%s' does not follow <op>[<k>[c]<k>[c]]_<batch|avx|avx512>" % name)
    op, ka, ca, kb, cb, suffix = m.groups()
    lanes = 8 if suffix == "avx512" else 4
    regbits = {"batch": 0, "avx": 256, "avx512": 512}[suffix]
    if ka is None:
        ka, ca, kb, cb = "3", "", "3", ""
    ps = [parse_param(p) for p in params]
    for p in ps:
        if "regbits" in p and p["regbits"] != regbits:
            raise Unfit("parameter '%s' is a %d-bit register in a _%s function" % (p["text"], p["regbits"], suffix))
    roles = {"out": [], "a": [], "b": [], "sums": []}
    strides = {}
    order = []
    for idx, p in enumerate(ps):
        nm = p["name"]
        if p["atom"] in ("INT", "INT_ARR"):
            if nm not in STRIDE_ROLE:
                raise Unfit("integer parameter '%s' is not a known stride/offset name" % p["text"])
            r = STRIDE_ROLE[nm]
            if r in strides:
                raise Unfit("two stride parameters for operand %s" % r)
            strides[r] = (idx, p)
            continue
        if p["atom"] == "GE_ARR":
            if nm == "b_" and p["dim"] == "3":
                roles["sums"].append((idx, p))
                continue
            raise Unfit("array parameter '%s' is not the challenge-sum form b_[3]" % p["text"])
        if nm in SUM_REG_NAMES and p["atom"] == "REG":
            roles["sums"].append((idx, p))
            continue
        if nm in OUT_NAMES:
            r = "out"
        elif nm in A_NAMES:
            r = "a"
        elif nm in B_NAMES:
            r = "b"
        else:
            raise Unfit("parameter name '%s' is bound to no role" % nm)
        roles[r].append((idx, p))
        if not order or order[-1] != r:
            order.append(r)
    want = ["out", "a"] if op == "copy" else ["out", "a", "b"]
    if order != want:
        raise Unfit("operand order %s is not %s" % (order, want))

    def group_loc(r):
        g = [p for _, p in roles[r]]
        idxs = [i for i, _ in roles[r]]
        if idxs != list(range(idxs[0], idxs[0] + len(idxs))) and not (r == "out" and len(g) == 1):
            # the parameters of one operand must be adjacent (a stride_c may follow a memory output, handled below)
            raise Unfit("parameters of operand %s are not adjacent" % r)
        names = [p["name"] for p in g]
        atoms = [p["atom"] for p in g]
        if len(g) == 1:
            p = g[0]
            if p["atom"] == "GE_PTR":
                return "mem", p
            if p["atom"] == "GE_VAL":
                return "val", p
            if p["atom"] == "E3_REF":
                return "ref3", p
            if p["atom"] == "REG":
                return "reg1", p
            if p["atom"] == "TRIPLE":
                return "triple", p
        if len(g) == 3 and atoms == ["REG"] * 3:
            pre = {"out": "c", "a": "a", "b": "b"}[r]
            if names == [pre + "0_", pre + "1_", pre + "2_"]:
                return "reg3", g[0]
        raise Unfit("operand %s has an unrecognised parameter group %s" % (r, names))

    def operand(r, kind, konst):
        loc, p = group_loc(r)
        d = {"kind": "ext" if kind == "3" else "base", "const": bool(konst), "loc": loc, "stride": "none", "default_stride": 0, "stride_type": ""}
        st = strides.get(r)
        if r == "out":
            if loc in ("val", "ref3", "reg1"):
                raise Unfit("output passed as %s" % loc)
            for q in ([p] if loc != "reg3" else [x for _, x in roles[r]]):
                if q["const"] or (loc == "reg3" and q["ind"] != "&"):
                    raise Unfit("output parameter '%s' is not writable" % q["text"])
        if loc == "mem":
            if konst:
                if kind == "1":
                    raise Unfit("constant base operand %s passed through a pointer" % r)
                if st:
                    raise Unfit("constant operand %s has a stride parameter" % r)
            else:
                d["default_stride"] = 3 if kind == "3" else 1
                d["stride"] = "default"
                if st:
                    sp = st[1]
                    if sp["atom"] == "INT":
                        d["stride"] = "uniform"
                    else:
                        if sp["dim"] not in (str(lanes), "AVX512_SIZE_" if lanes == 8 else "AVX_SIZE_"):
                            raise Unfit("index array '%s' does not have %d entries" % (sp["text"], lanes))
                        if sp["type"] != "uint64_t":
                            raise Unfit("index array '%s' is not uint64_t" % sp["text"])
                        d["stride"] = "index"
                    d["stride_type"] = sp["type"]
                    d["stride_param"] = sp["name"]
                    if r == "out" and st[0] != roles[r][0][0] + 1:
                        raise Unfit("stride_c does not directly follow the output pointer")
                    if r != "out" and st[0] < roles[r][0][0]:
                        raise Unfit("stride of operand %s precedes the operand" % r)
        else:
            if st:
                raise Unfit("operand %s is not in memory but has a stride parameter" % r)
            if loc == "val" and not (kind == "1" and konst):
                raise Unfit("by-value element for operand %s, but the name does not say 1c" % r)
            if loc == "ref3" and not (kind == "3" and konst):
                raise Unfit("Element& for operand %s, but the name does not say 3c" % r)
            if loc == "reg1" and not (kind == "1" and not konst):
                raise Unfit("single register for operand %s, but the name does not say 1 (per lane)" % r)
            if loc in ("triple", "reg3") and kind != "3":
                raise Unfit("register triple for operand %s, but the name says base element" % r)
        return d

    # a bare "stride" binds to the only per-lane memory operand
    if "?" in strides:
        cands = []
        for r, kind, konst in (("a", ka, ca), ("b", kb, cb)):
            if op == "copy" and r == "b":
                continue
            if len(roles[r]) == 1 and roles[r][0][1]["atom"] == "GE_PTR" and not konst:
                cands.append(r)
        if len(cands) != 1 or cands[0] in strides:
            raise Unfit("bare 'stride' parameter cannot be bound to exactly one per-lane memory operand")
        strides[cands[0]] = strides.pop("?")

    sums = "none"
    if roles["sums"]:
        if op != "mul":
            raise Unfit("challenge sums on a non-mul function")
        g = [p for _, p in roles["sums"]]
        if len(g) == 1 and g[0]["atom"] == "GE_ARR":
            sums = "mem"
            cb = "c"  # three sums describe ONE element: operand b is the constant challenge
        elif len(g) == 3 and [p["name"] for p in g] == SUM_REG_NAMES:
            sums = "regs"
        else:
            raise Unfit("unrecognised challenge-sum parameters")
        if roles["sums"][0][0] < roles["b"][-1][0]:
            raise Unfit("challenge sums precede operand b")
        if kb != "3":
            raise Unfit("challenge sums for a base operand")

    out = operand("out", "3", False)
    a = operand("a", ka, ca)
    b = operand("b", kb, cb) if op != "copy" else None
    if sums == "mem" and b["loc"] != "mem":
        raise Unfit("memory sums with a non-memory challenge")
    if sums == "regs" and b["loc"] not in ("reg3", "triple"):
        raise Unfit("register sums with a non-register operand b")
    for r in strides:
        if r == "?" or not roles.get(r):
            raise Unfit("stride parameter for a missing operand")
    used = sum(len(v) for v in roles.values()) + len(strides)
    if used != len(ps):
        raise Unfit("internal: %d of %d parameters classified" % (used, len(ps)))

    # call arguments for the thunk, in parameter order
    W = "w" if regbits == 512 else "r"
    args = [None] * len(ps)
    for r, fld in (("out", "c"), ("a", "a"), ("b", "b")):
        for j, (idx, p) in enumerate(roles[r]):
            mem = {"out": "out", "a": "a", "b": "b"}[r]
            if p["atom"] == "GE_PTR":
                args[idx] = "(GE *)f.%s" % mem
            elif p["atom"] == "GE_VAL":
                args[idx] = "gel(f.v%s)" % fld
            elif p["atom"] == "E3_REF":
                args[idx] = "*(Goldilocks3::Element *)f.%s" % mem
            elif p["atom"] == "TRIPLE":
                args[idx] = "f.%s%s" % (W, fld)
            elif p["atom"] == "REG":
                args[idx] = "f.%s%s[%d]" % (W, fld, j)
    for j, (idx, p) in enumerate(roles["sums"]):
        args[idx] = "(GE *)f.bsum" if p["atom"] == "GE_ARR" else "f.%ss[%d]" % (W, j)
    for r, (idx, p) in strides.items():
        fld = {"out": "o", "a": "a", "b": "b"}[r]
        if p["atom"] == "INT_ARR":
            args[idx] = "f.i%s" % fld
        else:
            args[idx] = "f.s%s" % fld if p["type"] == "uint64_t" else "(%s)f.s%s" % (p["type"], fld)
    assert all(x is not None for x in args)
    # in-place forms: the result register triple IS the register triple of operand a (or b)
    alias_args = {}
    out_idx = [idx for idx, p in roles["out"] if p["atom"] in ("TRIPLE", "REG")]
    if out_idx and len(out_idx) == len(roles["out"]):
        for which, r in ((1, "a"), (2, "b")):
            rp = roles[r]
            if rp and all(p["atom"] in ("TRIPLE", "REG") for _, p in rp) and (len(rp) == 3 or rp[0][1]["atom"] == "TRIPLE"):
                al = list(args)
                for idx in out_idx:
                    al[idx] = al[idx].replace("f.%sc" % W, "f.%s%s" % (W, r))
                alias_args[which] = al

    sig_types = ", ".join(p["ptype"] for p in ps)
    ident = "%s.%s" % (name, hashlib.sha1(("%s(%s)" % (name, sig_types)).encode()).hexdigest()[:6])
    notes = []
    if sums == "mem":
        notes.append("operand b is the constant challenge because the sums b_[3] describe one element (name carries no c)")
    for r, o in (("a", a), ("b", b)):
        if o and o["const"] and o["loc"] in ("triple", "reg3"):
            notes.append("operand %s is a constant by name but a register triple by type: exercised with the constant broadcast to all lanes" % r)
    e = {
        "id": ident, "name": name, "op": op, "family": "%s_%s" % (op, suffix), "lanes": lanes,
        "signature": "void %s(%s)" % (name, ", ".join(p["text"] for p in ps)),
        "fnptr": "void (*)(%s)" % sig_types,
        "out": out, "a": a, "b": b, "sums": sums, "call_args": args, "alias_args": alias_args, "W": W, "notes": notes,
    }
    return e


def parse_header(path):
    """Return (entries, problems). entries carry 'line' and 'guard' which are NOT part of the committed comparison."""
    src = strip_comments(open(path).read())
    entries, problems = [], []
    seen = set()
    for text, line, guards in class_members(src):
        if "(" not in text:
            continue
        head = text[:text.index("(")]
        mname = re.search(r"([A-Za-z_]\w*)\s*$", head)
        if not mname:
            continue
        name = mname.group(1)
        if not FAMILY_RE.match(name):
            continue
        flat = re.sub(r"\s+", " ", text).strip()
        # exact line of the name
        line = line + text[:mname.start(1)].count("\n")
        try:
            quals = head[:mname.start(1)].split()
            if "static" not in quals or quals[-1] != "void" or any(q not in ("static", "inline", "void") for q in quals):
                raise Unfit("declaration is not 'static [inline] void'")
            depth = 0
            close = None
            for i in range(text.index("("), len(text)):
                if text[i] == "(":
                    depth += 1
                elif text[i] == ")":
                    depth -= 1
                    if depth == 0:
                        close = i
                        break
            if close is None or text[close + 1:].strip():
                raise Unfit("unexpected text after the parameter list")
            params = split_params(text[text.index("(") + 1:close])
            if any("=" in p for p in params):
                raise Unfit("default arguments are outside the rule")
            e = classify(name, params)
            e["line"] = line
            g = [x for x in guards]
            if g == []:
                e["guard"] = ""
            elif g == ["__AVX512__"]:
                e["guard"] = "__AVX512__"
            else:
                raise Unfit("declared under preprocessor guards %s" % g)
            if (e["lanes"] == 8) != (e["guard"] == "__AVX512__"):
                raise Unfit("AVX-512 guard and _avx512 suffix disagree")
            if e["id"] in seen:
                raise Unfit("duplicate signature")
            seen.add(e["id"])
            entries.append(e)
        except Unfit as ex:
            problems.append("line %d: %s: %s" % (line, flat[:200], ex))
    return entries, problems


COMMITTED_KEYS = ["id", "name", "op", "family", "lanes", "signature", "fnptr", "out", "a", "b", "sums", "notes"]


def committed_view(e):
    return {k: e[k] for k in COMMITTED_KEYS}


def load_table(path=TABLE):
    with open(path) as f:
        return json.load(f)


def compare(entries, table):
    """Differences between the freshly parsed entries and the committed table (list of strings, empty = identical)."""
    diffs = []
    cur = {e["id"]: committed_view(e) for e in entries}
    old = {e["id"]: e for e in table["overloads"]}
    for i in sorted(set(cur) - set(old)):
        diffs.append("overload in the header but not in the committed table: %s" % cur[i]["signature"])
    for i in sorted(set(old) - set(cur)):
        diffs.append("overload in the committed table but not in the header: %s" % old[i]["signature"])
    for i in sorted(set(cur) & set(old)):
        if cur[i] != old[i]:
            ks = [k for k in COMMITTED_KEYS if cur[i].get(k) != old[i].get(k)]
            diffs.append("overload %s differs from the committed table in %s" % (i, ",".join(ks)))
    return diffs


def consistency(repo=None):
    """(entries, messages): messages non-empty = the check must end inconclusive."""
    repo = repo or default_repo()
    path = os.path.join(repo, HEADER_REL)
    msgs = []
    try:
        entries, problems = parse_header(path)
    except (OSError, ValueError) as ex:
        return [], ["cannot parse %s: %s" % (path, ex)]
    msgs += ["declaration does not fit the classification rule: " + p for p in problems]
    try:
        table = load_table()
    except (OSError, ValueError) as ex:
        return entries, msgs + ["cannot read the committed table %s: %s" % (TABLE, ex)]
    msgs += compare(entries, table)
    return entries, msgs


# ------------------------------------------------------------------------------------------------ C++ emission
LOC = {"mem": "L_MEM", "val": "L_VAL", "ref3": "L_REF3", "reg1": "L_REG1", "triple": "L_TRIPLE", "reg3": "L_REG3"}
STR = {"none": "S_NONE", "default": "S_DEFAULT", "uniform": "S_UNIFORM", "index": "S_INDEX"}
SUMS = {"none": "M_NONE", "mem": "M_MEM", "regs": "M_REGS"}


def cstr(s):
    return '"' + s.replace("\\", "\\\\").replace('"', '\\"') + '"'


def opnd_cpp(o):
    if o is None:
        return "{0,0,L_NONE,S_NONE,0,0}"
    bits = 32 if o.get("stride_type") == "uint32_t" else 64
    return "{%d,%d,%s,%s,%d,%d}" % (3 if o["kind"] == "ext" else 1, 1 if o["const"] else 0, LOC[o["loc"]], STR[o["stride"]], o["default_stride"], bits)


def emit(entries, outdir, nfiles=4):
    """Write thunks16_<i>.cpp; the AVX-512 overloads are spread evenly and guarded by __AVX512__."""
    os.makedirs(outdir, exist_ok=True)
    buckets = [[] for _ in range(nfiles)]
    c4 = c8 = 0
    for e in sorted(entries, key=lambda x: (x["op"] != "mul", x["line"])):
        if e["lanes"] == 8:
            buckets[c8 % nfiles].append(e)
            c8 += 1
        else:
            buckets[c4 % nfiles].append(e)
            c4 += 1
    paths = []
    for i, b in enumerate(buckets):
        L = ["// GENERATED by tools/gen_overloads16.py from the current goldilocks_cubic_extension.hpp - do not edit",
             '#include "goldilocks_cubic_extension.hpp"', '#include "wrappers16.hpp"',
             "using namespace c16;", "typedef Goldilocks::Element GE;",
             "static inline GE gel(uint64_t v) { GE e; e.fe = v; return e; }", ""]
        for pas in (0, 1):
            grp = [e for e in b if (e["lanes"] == 8) == bool(pas)]
            if pas:
                L.append("#ifdef __AVX512__")
            for e in grp:
                e["_fn"] = "t%d_%s" % (i, e["id"].replace(".", "_"))
                call = "static_cast<%s>(&Goldilocks3::%s)" % (e["fnptr"], e["name"])
                body = ""
                for which, al in sorted(e.get("alias_args", {}).items()):
                    W, r = e["W"], "ab"[which - 1]
                    vt = "__m512i" if W == "w" else "__m256i"
                    body += "if (f.regalias == %d) { %s sv[3] = {f.%s%s[0], f.%s%s[1], f.%s%s[2]}; %s(%s); for (int i = 0; i < 3; i++) { f.%sc[i] = f.%s%s[i]; f.%s%s[i] = sv[i]; } return; } " % (
                        which, vt, W, r, W, r, W, r, call, ", ".join(al), W, W, r, W, r)
                L.append("static void %s(Frame &f) { %s%s(%s); }" % (e["_fn"], body, call, ", ".join(e["call_args"])))
            if pas:
                L.append("#endif")
        L.append("")
        L.append("static const Ov table%d[] = {" % i)
        for pas in (0, 1):
            grp = [e for e in b if (e["lanes"] == 8) == bool(pas)]
            if pas:
                L.append("#ifdef __AVX512__")
            for e in grp:
                L.append("    {%s, %s, %s, %s, '%s', %d, %s, %s, %s, %s, %d, %s}," % (
                    cstr(e["id"]), cstr(e["name"]), cstr(e["family"]), cstr(e["signature"]), OPCH[e["op"]], e["lanes"],
                    opnd_cpp(e["out"]), opnd_cpp(e["a"]), opnd_cpp(e["b"]), SUMS[e["sums"]], e["line"], e["_fn"]))
            if pas:
                L.append("#endif")
        L.append("};")
        L.append("static Registrar reg%d(table%d, sizeof(table%d) / sizeof(table%d[0]));" % (i, i, i, i))
        p = os.path.join(outdir, "thunks16_%d.cpp" % i)
        with open(p, "w") as f:
            f.write("\n".join(L) + "\n")
        paths.append(p)
    return paths


def write_table(entries, header_path):
    fam = {}
    for e in entries:
        fam[e["family"]] = fam.get(e["family"], 0) + 1
    t = {
        "property": "C16",
        "generated_by": "tools/gen_overloads16.py --write-table",
        "header": HEADER_REL,
        "rule": "see the docstring of tools/gen_overloads16.py",
        "count": len(entries),
        "per_family": dict(sorted(fam.items())),
        "overloads": [committed_view(e) for e in sorted(entries, key=lambda x: x["line"])],
    }
    with open(TABLE, "w") as f:
        json.dump(t, f, indent=1)
        f.write("\n")


def main():
    ap = argparse.ArgumentParser()
    ap.add_argument("--repo", default=default_repo())
    ap.add_argument("--write-table", action="store_true")
    ap.add_argument("--check", action="store_true")
    ap.add_argument("--emit", metavar="DIR")
    ap.add_argument("-k", type=int, default=4)
    ap.add_argument("--list", action="store_true")
    a = ap.parse_args()
    path = os.path.join(a.repo, HEADER_REL)
    if a.check:
        entries, msgs = consistency(a.repo)
        for m in msgs:
            print("INCONCLUSIVE: " + m)
        print("%d overloads parsed, %d problems" % (len(entries), len(msgs)))
        return 2 if msgs else 0
    entries, problems = parse_header(path)
    for p in problems:
        print("UNFIT: " + p)
    if a.list:
        for e in entries:
            def sh(o):
                if o is None:
                    return "-"
                return "%s%s/%s%s" % (o["kind"], "-const" if o["const"] else "", o["loc"], ("/" + o["stride"]) if o["stride"] != "none" else "")
            print("%-5d %-22s L%d out=%-18s a=%-24s b=%-24s sums=%s" % (e["line"], e["id"], e["lanes"], sh(e["out"]), sh(e["a"]), sh(e["b"]), e["sums"]))
    if a.write_table:
        if problems:
            print("refusing to write the table: %d declarations do not fit the rule" % len(problems))
            return 2
        write_table(entries, path)
        print("wrote %s (%d overloads)" % (TABLE, len(entries)))
    if a.emit:
        if problems:
            return 2
        for p in emit(entries, a.emit, a.k):
            print(p)
    return 2 if problems else 0


if __name__ == "__main__":
    sys.exit(main())
