#!/usr/bin/env python3
"""Run checks against a seeded change kept under /verif/seeded/<id>/ (patch.diff + meta.json).
usage: tools/run_seeded.py <id> [--checks C03,C19] [--tier quick]
The patch is applied to a scratch copy of /repo/src (never to /repo itself); checks run with VERIF_REPO pointing at the copy and
VERIF_OUT_DIR pointing at a scratch directory, so committed evidence is untouched.  Result -> seeded/<id>/result.json"""
import argparse, json, os, re, shutil, subprocess, sys, tempfile, time

VERIF = os.path.dirname(os.path.dirname(os.path.abspath(__file__)))

def main():
    ap = argparse.ArgumentParser()
    ap.add_argument("id")
    ap.add_argument("--checks", default=None)
    ap.add_argument("--tier", default="quick")
    ap.add_argument("--seed", default="1")
    a = ap.parse_args()
    sd = os.path.join(VERIF, "seeded", a.id)
    meta = json.load(open(os.path.join(sd, "meta.json")))
    checks = a.checks.split(",") if a.checks else meta.get("checks", [meta["property"]])
    scratch = tempfile.mkdtemp(prefix="seeded-" + a.id + "-", dir="/tmp")
    try:
        shutil.copytree("/repo/src", os.path.join(scratch, "src"))
        r = subprocess.run(["patch", "-p1", "-s", "-i", os.path.join(sd, "patch.diff")], cwd=scratch, capture_output=True, text=True)
        if r.returncode != 0:
            print("patch does not apply:", r.stdout, r.stderr)
            return 2
        out = {"id": a.id, "tier": a.tier, "seed": a.seed, "repo_head": subprocess.run(["git", "-C", "/repo", "rev-parse", "--short", "HEAD"], capture_output=True, text=True).stdout.strip(),
               "verif_head": subprocess.run(["git", "-C", VERIF, "rev-parse", "--short", "HEAD"], capture_output=True, text=True).stdout.strip(), "checks": {}}
        env = dict(os.environ, VERIF_REPO=scratch, VERIF_OUT_DIR=os.path.join(scratch, "out"), VERIF_SEED=a.seed)
        for c in checks:
            t0 = time.time()
            p = subprocess.run([os.path.join(VERIF, "check"), c, "--tier", a.tier], cwd=VERIF, env=env, capture_output=True, text=True)
            keys = re.findall(r"violation key: (.*)", p.stdout)
            out["checks"][c] = {"exit": p.returncode, "violations": len(re.findall(r"^VIOLATION ", p.stdout, re.M)), "first_keys": keys[:6],
                                "inconclusive": re.findall(r"INCONCLUSIVE: (.*)", p.stdout)[:3], "wall_s": round(time.time() - t0, 1)}
            print(c, "exit", p.returncode, "violations", out["checks"][c]["violations"], keys[:2])
        out["detected"] = any(v["exit"] == 1 for v in out["checks"].values())
        with open(os.path.join(sd, "result.json"), "w") as f:
            json.dump(out, f, indent=1)
        return 0
    finally:
        shutil.rmtree(scratch, ignore_errors=True)

if __name__ == "__main__":
    sys.exit(main())
