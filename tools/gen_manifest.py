#!/usr/bin/env python3
"""Regenerates /verif/MANIFEST.json from the registry in lib/props.py and the texts below."""
import json
import os
import subprocess
import sys

VERIF = os.path.dirname(os.path.dirname(os.path.abspath(__file__)))
sys.path.insert(0, os.path.join(VERIF, "lib"))
import props  # noqa: E402

TEXT = {
    "C01": ("fieldops", "differential u128/GMP oracle over boundary-directed operand families, path classifier, literal-operand call sites, plain-thread concurrent callers",
            "Every scalar op in every call/aliasing form is executed on operand pairs constructed to hit each carry/borrow/hi-word path "
            "(observed classes are listed, a missing class makes the run inconclusive) and on 2*10^8 (quick) / 2*10^10 (thorough) mixed "
            "random pairs, prod and ASan/UBSan builds; held on the executed pairs only.",
            "u128 '%' and GMP as reference; inline asm observed as compiled with the shipped flags (-O3 -mavx2)"),
    "C10": ("fieldops", "a*inv(a)=1 / a^(p-2) oracle, Euclid-structure-directed operands, forked refusal and hang monitor",
            "inv/div/exp compared with the oracle on directed (Fibonacci, floor(p/k), 2^k+-1, aliases) and random operands; refusal of zero "
            "divisors observed in forked children; non-termination would surface as a per-case watchdog violation.",
            "u128 oracle; watchdog firing once is inconclusive, twice (alone, fresh process) a violation"),
    "C15": ("fieldops", "GMP floor-mod oracle over conversion boundaries, all radices 2..36, the same literal in consecutive radices, in-place outward conversions, plain-thread concurrent callers, int32 exhaustive in thorough",
            "All conversion entry points compared with GMP floor-mod semantics on boundary neighbourhoods, every int32 (thorough), "
            "big integers of both signs as strings and mpz; predicates on representation pairs.",
            "GMP string parsing/printing is trusted as the reference for radix conversion"),
}

TEXT.update({
    "C02": ("vecops", "per-lane differential oracle under each kernel's documented operand assumption, lane rotation, path classifier, in-place register forms, -mavx2 / ASan+UBSan / -march=native builds",
            "All 16 AVX2 lane kernels executed with every lane carrying a different boundary-directed pair, constrained to exactly the documented "
            "precondition; results compared per lane with the scalar oracle (prod and ASan/UBSan builds). Held on executed lane inputs only.",
            "u128 oracle; preconditions taken from the header comments (never stricter)"),
    "C11": ("vecops", "per-lane differential oracle (8 lanes) on the AVX-512 build the shipped tests never compile (-mavx512f, ASan+UBSan and -march=native builds)",
            "Same monitor as C02 for the 13 AVX-512 kernels, built with -mavx512f -D__AVX512__ and executed on this CPU's AVX-512F.",
            "u128 oracle; requires an AVX-512F CPU (otherwise inconclusive); valgrind cannot run AVX-512 so memory side is ASan only"),
    "C13": ("vecops", "integer matrix-vector oracle, band-directed operands (lane products constructed to land in [p,2^64)), aliased result registers, changed matrix at the same address, coefficient arrays of exact extent before an unmapped page, -march=native build, plain-thread concurrent callers",
            "dot/spmv/mmult AVX2 kernels (aligned, unaligned at offsets 0..3, 8-bit variants) compared with the matrix oracle on seven operand "
            "families (incl. coefficients below 2^32 and 8-bit low words with a high word set), with the result register being a state register, and a second time with the matrix changed in place; the number of non-canonical intermediate products actually produced is measured by probing the lane kernels.",
            "u128 oracle; documented layouts (row-major 12x12, block-diagonal 4x12)"),
    "C14": ("vecops", "integer matrix-vector oracle per interleaved state, band-directed operands, AVX-512 build",
            "Same monitor as C13 for the AVX-512 two-state kernels; found the non-canonical-addend defect (F1) on the pinned tree, fixed in "
            "/repo commit 3bd4259; the families that expose it stay in the workload.",
            "u128 oracle; requires AVX-512F"),
})

TEXT.update({
    "C16": ("wrappers", "generated thunk per declared overload (plus in-place register-triple forms), schoolbook cubic oracle per element, sentinel arenas (stray write / stray read), sparse mappings for strides of 2^28..2^30 elements, header re-parse against committed table",
            "All 159 batched/AVX2/AVX-512 cubic-extension overloads parsed from the current header are called through exact-signature thunks with operands "
            "placed by strides / index arrays in sentinel arenas; every designated coefficient compared with the scalar oracle, every other cell must be untouched, "
            "a second call with another sentinel must give identical bits; prod/prod512/asan/asan512 builds. A changed overload set makes the run inconclusive.",
            "expected behaviour is the naming convention of the header (digits = operand kinds, c = constant), not any single definition; stray reads that stay inside the arena and do not change results are invisible"),
    "C17": ("wrappers", "generated thunk per declared overload, u128 oracle per lane, sentinel arenas, exact-extent inputs before an unmapped page, broadcast scalar passed as an lvalue of the result array, sparse mappings for strides of 2^28..2^30 elements, guard-page/framed buffers for parcpy/parSetZero",
            "All 160 defined copy/add/sub/mul _batch/_avx/_avx512 overloads (table re-derived from the header at check time; the one declared-but-undefined overload is link-probed) "
            "executed with strided / indexed / broadcast / register operands in sentinel arenas; parcpy/parSetZero over the size x thread-argument grid (INT_MIN, -1, 0 included) in guard-page buffers.",
            "family convention from parameter names is the specification; overlapping result positions excluded; libgomp team sizes capped at 1024"),
})

TEXT.update({
    "C03": ("ntt", "DFT oracle over an exhaustive small-configuration lattice + sampled large sizes, Freivalds random columns, guard-page buffers, crash attribution, hook schedule log, callers inside an OpenMP team",
            "Every (maxDomain, size, ncols, nphase, nblock, buffer, alias) combination up to 2^6 (quick) / 2^9 (thorough) and samples up to 2^13 / 2^20 (+2^22) is executed on the "
            "pthread OpenMP stand-in with permuted member order, a 5% slice on real libgomp and a slice under ASan/UBSan, and compared at every output position with an "
            "independent DFT; source-unchanged, no-op (size 0 / 0 columns), null destination and abort/crash are observed per configuration.",
            "pinned root table (self-checked); one random column per configuration speaks for all inputs only because the transform is linear and data independent (monitored, not proved)"),
    "C04": ("ntt", "inverse-DFT oracle over the same lattice, mixed-configuration round trips",
            "Same lattice as C03 with the inverse oracle (n^-1, w^-1), null destination = in place, plus INTT(NTT(x)) and NTT(INTT(x)) with independently drawn "
            "configurations and objects for the two legs.",
            "as C03"),
    "C05": ("ntt", "LDE oracle (interpolate, evaluate at 7*w^k by Horner) over the (N, N_ext) lattice, in place and out of place",
            "All N<=N_ext up to 2^6 (quick) / 2^10 (thorough) x ncols x nphase x nblock x buffer x in-place/out-of-place x object size, samples up to 2^12 / 2^20; "
            "includes the on-site zero-padding permutation (even phases, one block) that aborted on the pinned tree.",
            "as C03; garbage in rows >= N of an in-place buffer must not influence the result"),
    "C19": ("ntt", "call-history differential: shared object vs freshly constructed object vs oracle, shortest failing prefix as witness",
            "3000 (quick) / 40000 (thorough) call sequences of 2-24 NTT/INTT/extendPol calls on one object (two interleaved objects with different thread counts in a fifth "
            "of them), every ordered pair of call kinds and N-grows / N-shrinks extendPol pairs required to occur; also under ASan (stale-table over-reads) and on real libgomp.",
            "a call where both the fresh and the shared object disagree with the oracle is not counted against C19 (it belongs to C03-C05)"),
    "C20": ("ptxemu", "concrete interpretation of the real inline-PTX text of gl64_t.cuh on the host (both __CUDA_ARCH__ paths, fully and partially reduced), u128 oracle, table row checks",
            "tools/ptx_rewrite.py turns every asm statement of the current gl64_t.cuh into a call of a concrete PTX interpreter (23 opcodes, carry flag, scoped predicates); "
            "the device field type's + - unary- * (element and 32-bit word) sqr pow shifts reciprocal reductions and conversions are compared with the oracle on boundary-directed "
            "operands; omegas/omegas_inv/domain_size_inverse are extracted from ntt_goldilocks.cuh and checked row by row against the CPU table and the pinned roots.",
            "trusted base: the interpreter's reading of the PTX ISA (self-tested against hand-computed carry cases) and the rewriter; ptxas/SASS, kernels and real devices are out of reach (no GPU, no nvcc)"),
})

TEXT.update({
    "C06": ("poseidon", "reference permutation over the oracle field, states constructed by inverting the whole permutation (chosen product residues in front of the linear step of any of its 30 stages), chained in-place calls, plain-thread concurrent callers, interleaved-pair swapping, constant-table monitor",
            "Scalar, AVX2 and AVX-512 (both lanes of a pair) full-result permutation and capacity hash compared with an independent reference on 8*10^5 (quick) / 6*10^7 (thorough) "
            "states per build, including states solved backwards (7th roots, inverse MDS / P / sparse partial-round matrices) so that chosen boundary vectors and chosen coefficient*state products "
            "(residues below 2^32, next to p) reach the linear step of every stage; perm^k chains in place; 8 plain threads on their own states; exposes the AVX-512 column-sum defect (F1) when it is reverted.",
            "spec = reference-form Poseidon with the library's tables; tables pinned by hash; oracle validated by published known answers"),
    "C07": ("poseidon", "reference sponge for every input length 0..264 (+long, one beyond 2^24 elements), guard-page inputs and sentinel-framed digests, plain-thread concurrent callers",
            "All three variants compared with the reference sponge for every length, both sides of the <=4 pass-through threshold and every residue mod 8; reads beyond "
            "the declared length fault on the guard page (or ASan), writes beyond the digest hit the sentinel frame; one input of 2^24+1 elements (second oracle arithmetic, cross-checked); 8 plain threads hashing at once.",
            "as C06"),
    "C08": ("poseidon", "reference tree, whole-buffer comparison, exact-size guard-page tree and input buffers, all eight builders",
            "Every element of the tree buffer compared with a reference binary Poseidon tree for ~4*10^3 (quick) / ~5*10^4 (thorough) shapes incl. one row, zero columns, "
            "dim 3 and every batch relation; found the one-row AVX-512 overrun (F2) on the pinned tree, fixed in /repo 24e8e4b.",
            "as C06; power-of-two row counts as the property states"),
})

TEXT.update({
    "C09": ("cubic", "schoolbook polynomial oracle (integer product, x^3=x+1), exhaustive 12^6 boundary pairs, aliasing forms, a*inv(a)=1, all batch lengths, isOne representation grid, decimal strings beyond 64 bits, plain-thread concurrent callers",
            "Every scalar cubic-extension overload compared with the oracle on all 12^6 boundary coefficient pairs and 3*10^7 (quick) / 10^9 (thorough) mixed pairs, inversion on "
            "structured elements, batchInverse for every length 1..130 and up to 4*10^5 (3*10^6 thorough) elements in forked children, isOne on every representation of one and on "
            "near-ones; prod and ASan/UBSan builds. Found F10 (isOne) and F11 (batchInverse stack overflow) on the pinned tree, fixed in /repo 1e163bd and 76c4efa.",
            "u128 oracle; Gaussian elimination in the oracle for the reference inverse"),
})

TEXT.update({
    "C12": ("races", "ThreadSanitizer over a pthread OpenMP stand-in (fork/join visible), all k! sequential member orders for teams <= 4, libgomp team sweep (also thread-limited and time-sliced on 2 CPUs), cold-start first use by a team, bit-identity with the single-thread result",
            "Every parallel region of the transforms, Merkle builders and copy helpers is executed under TSan with 7 team sizes (fewer, equal, more members than iterations) and "
            "seeded start-up delays; the same workloads run with permuted sequential member orders, with teams delivered smaller than requested and on real libgomp and must reproduce the single-thread output bit for bit; "
            "the first library use of every process is a team of 8 on a rotating entry point (lazily prepared state).",
            "TSan happens-before analysis on the executed regions; schedules of regions never entered are not covered"),
})

TEXT.update({
    "C18": ("memsan", "ASan+UBSan (AVX2 and AVX-512 builds) on exact-size allocations and smallest shapes with per-case attribution, LeakSanitizer on object lifetimes, valgrind memcheck slice, stack/heap fill differential",
            "The monitors of C03-C09, C13, C14, C16, C17, C19 are re-run in ASan/UBSan builds with exact-size buffers; object construct/use/destroy histories run with leak detection; a scalar+AVX2 "
            "slice runs under memcheck with origin tracking; production-flag builds with pattern- vs zero-initialised stack and different MALLOC_PERTURB_ must produce identical output digests.",
            "red-zone and shadow-memory tools see only what the workloads reach; intra-object overflows and AVX-512 uninitialised reads that do not reach an output are out of reach"),
})

NOT_YET = "check not built yet in this revision of /verif (planned, see DESIGN.md section 3)"


def main():
    ids = [json.loads(l)["id"] for l in open(os.path.join(VERIF, "properties.jsonl"))]
    checks = []
    na = []
    engines = {}
    for i in ids:
        if i in props.REGISTRY and i in TEXT:
            eng, tech, text, note = TEXT[i]
            engines.setdefault(eng, []).append(i)
            checks.append({
                "property_id": i,
                "quick_cmd": "./check %s --tier quick" % i,
                "thorough_cmd": "./check %s --tier thorough" % i,
                "evidence_file": "/verif/evidence/%s.json" % i,
                "replay_cmd_template": "./check %s --replay {path}" % i,
                "engine": eng,
                "level_claimed": {"category": "exploration", "text": text, "design_ref": "DESIGN.md section 3, " + i},
                "level_note": note,
                "technique": "runtime monitoring: " + tech,
            })
        else:
            na.append({"property_id": i, "reason": NOT_YET})
    hooks_commits = []
    try:
        out = subprocess.run(["git", "-C", "/repo", "log", "--format=%H %s"], capture_output=True, text=True).stdout
        for ln in out.splitlines():
            h, s = ln.split(" ", 1)
            if s.startswith("verif-hook:"):
                hooks_commits.append(h)
    except Exception:
        pass
    man = {
        "version": 1,
        "setup_cmd": "true",
        "hooks": {
            "guard": "GOLDILOCKS_VERIF",
            "enable": "checks compile /repo/src/*.cpp themselves with -DGOLDILOCKS_VERIF (see lib/vfw.py BASE flags)",
            "baseline_off_cmd": "make -C /repo -B testcpu && /repo/testcpu",
            "source_commits": hooks_commits,
            "add_only": True,
        },
        "engines": [{"name": k, "path": "/verif/harness", "serves_properties": v,
                     "kind_free_text": "C++ harness linked against /repo/src, run under oracles/sanitizers by /verif/check"} for k, v in engines.items()],
        "checks": checks,
        "not_applicable": na,
        "notes": "All checks rebuild /repo/src from the working tree into a private scratch directory under /verif/.build that is removed on exit. "
                 "VERIF_SEED seeds the random filler only; directed families are seed independent. exit 2 = inconclusive.",
    }
    with open(os.path.join(VERIF, "MANIFEST.json"), "w") as f:
        json.dump(man, f, indent=1)
    print("MANIFEST.json: %d checks, %d not_applicable" % (len(checks), len(na)))


if __name__ == "__main__":
    main()
