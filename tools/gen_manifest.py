#!/usr/bin/env python3
"""Regenerates /verif/MANIFEST.json from the registry in lib/props.py and the texts below."""
import json
import os
import subprocess
import sys

VERIF = os.path.dirname(os.path.dirname(os.path.abspath(__file__)))
sys.path.insert(0, os.path.join(VERIF, "lib"))
import props  # noqa: E402

TEXT = {
    "C01": ("fieldops", "differential u128/GMP oracle over boundary-directed operand families, path classifier",
            "Every scalar op in every call/aliasing form is executed on operand pairs constructed to hit each carry/borrow/hi-word path "
            "(observed classes are listed, a missing class makes the run inconclusive) and on 2*10^8 (quick) / 2*10^10 (thorough) mixed "
            "random pairs, prod and ASan/UBSan builds; held on the executed pairs only.",
            "u128 '%' and GMP as reference; inline asm observed as compiled with the shipped flags (-O3 -mavx2)"),
    "C10": ("fieldops", "a*inv(a)=1 / a^(p-2) oracle, Euclid-structure-directed operands, forked refusal and hang monitor",
            "inv/div/exp compared with the oracle on directed (Fibonacci, floor(p/k), 2^k+-1, aliases) and random operands; refusal of zero "
            "divisors observed in forked children; non-termination would surface as a per-case watchdog violation.",
            "u128 oracle; watchdog firing once is inconclusive, twice (alone, fresh process) a violation"),
    "C15": ("fieldops", "GMP floor-mod oracle over conversion boundaries, all radices 2..36, int32 exhaustive in thorough",
            "All conversion entry points compared with GMP floor-mod semantics on boundary neighbourhoods, every int32 (thorough), "
            "big integers of both signs as strings and mpz; predicates on representation pairs.",
            "GMP string parsing/printing is trusted as the reference for radix conversion"),
}

TEXT.update({
    "C02": ("vecops", "per-lane differential oracle under each kernel's documented operand assumption, lane rotation, path classifier",
            "All 16 AVX2 lane kernels executed with every lane carrying a different boundary-directed pair, constrained to exactly the documented "
            "precondition; results compared per lane with the scalar oracle (prod and ASan/UBSan builds). Held on executed lane inputs only.",
            "u128 oracle; preconditions taken from the header comments (never stricter)"),
    "C11": ("vecops", "per-lane differential oracle (8 lanes) on the AVX-512 build the shipped tests never compile",
            "Same monitor as C02 for the 13 AVX-512 kernels, built with -mavx512f -D__AVX512__ and executed on this CPU's AVX-512F.",
            "u128 oracle; requires an AVX-512F CPU (otherwise inconclusive); valgrind cannot run AVX-512 so memory side is ASan only"),
    "C13": ("vecops", "integer matrix-vector oracle, band-directed operands (lane products constructed to land in [p,2^64))",
            "dot/spmv/mmult AVX2 kernels (aligned, unaligned at offsets 0..3, 8-bit variants) compared with the matrix oracle on five operand "
            "families; the number of non-canonical intermediate products actually produced is measured by probing the lane kernels.",
            "u128 oracle; documented layouts (row-major 12x12, block-diagonal 4x12)"),
    "C14": ("vecops", "integer matrix-vector oracle per interleaved state, band-directed operands, AVX-512 build",
            "Same monitor as C13 for the AVX-512 two-state kernels; found the non-canonical-addend defect (F1) on the pinned tree, fixed in "
            "/repo commit 3bd4259; the families that expose it stay in the workload.",
            "u128 oracle; requires AVX-512F"),
})

NOT_YET = "check not built yet in this revision of /verif (planned, see DESIGN.md section 3)"


def main():
    ids = [json.loads(l)["id"] for l in open(os.path.join(VERIF, "properties.jsonl"))]
    checks = []
    na = []
    engines = {}
    for i in ids:
        if i in props.REGISTRY and i in TEXT:
            eng, tech, text, note = TEXT[i]
            engines.setdefault(eng, []).append(i)
            checks.append({
                "property_id": i,
                "quick_cmd": "./check %s --tier quick" % i,
                "thorough_cmd": "./check %s --tier thorough" % i,
                "evidence_file": "/verif/evidence/%s.json" % i,
                "replay_cmd_template": "./check %s --replay {path}" % i,
                "engine": eng,
                "level_claimed": {"category": "exploration", "text": text, "design_ref": "DESIGN.md section 3, " + i},
                "level_note": note,
                "technique": "runtime monitoring: " + tech,
            })
        else:
            na.append({"property_id": i, "reason": NOT_YET})
    hooks_commits = []
    try:
        out = subprocess.run(["git", "-C", "/repo", "log", "--format=%H %s"], capture_output=True, text=True).stdout
        for ln in out.splitlines():
            h, s = ln.split(" ", 1)
            if s.startswith("verif-hook:"):
                hooks_commits.append(h)
    except Exception:
        pass
    man = {
        "version": 1,
        "setup_cmd": "true",
        "hooks": {
            "guard": "GOLDILOCKS_VERIF",
            "enable": "checks compile /repo/src/*.cpp themselves with -DGOLDILOCKS_VERIF (see lib/vfw.py BASE flags)",
            "baseline_off_cmd": "make -C /repo -B testcpu && /repo/testcpu",
            "source_commits": hooks_commits,
            "add_only": True,
        },
        "engines": [{"name": k, "path": "/verif/harness", "serves_properties": v,
                     "kind_free_text": "C++ harness linked against /repo/src, run under oracles/sanitizers by /verif/check"} for k, v in engines.items()],
        "checks": checks,
        "not_applicable": na,
        "notes": "All checks rebuild /repo/src from the working tree into a private scratch directory under /verif/.build that is removed on exit. "
                 "VERIF_SEED seeds the random filler only; directed families are seed independent. exit 2 = inconclusive.",
    }
    with open(os.path.join(VERIF, "MANIFEST.json"), "w") as f:
        json.dump(man, f, indent=1)
    print("MANIFEST.json: %d checks, %d not_applicable" % (len(checks), len(na)))


if __name__ == "__main__":
    main()
