// Guard-page and sentinel arenas (DESIGN.md section 2).
//  GuardBuf<T>: n elements placed flush against a PROT_NONE page (after the buffer, or before it),
//               so a stray adjacent access faults in every build flavour (also production -O3).
//  Sentinel   : one block of uint64 cells; designated cells hold operands, all others a sentinel value;
//               after a call every undesignated cell must still hold the sentinel (stray write), and a
//               call repeated with another sentinel must give the same outputs (stray read that matters).
#pragma once
#include <cstdint>
#include <cstdlib>
#include <cstring>
#include <vector>
#include <sys/mman.h>
#include <unistd.h>

namespace arena {

template <typename T>
struct GuardBuf
{
    void *map = nullptr;
    size_t maplen = 0;
    T *p = nullptr;
    size_t n = 0;
    // upper=true: guard page directly behind the last element; upper=false: guard page directly before the first
    // align: required alignment of p in bytes (upper placement keeps the end flush only if n*sizeof(T) is a multiple of align)
    GuardBuf(size_t n_, bool upper = true, size_t align = 8) { alloc(n_, upper, align); }
    GuardBuf(const GuardBuf &) = delete;
    GuardBuf &operator=(const GuardBuf &) = delete;
    void alloc(size_t n_, bool upper, size_t align)
    {
        n = n_;
        size_t pg = (size_t)sysconf(_SC_PAGESIZE);
        size_t bytes = n * sizeof(T);
        size_t body = ((bytes + pg - 1) / pg) * pg;
        if (body == 0) body = pg;
        maplen = body + 2 * pg;
        map = mmap(NULL, maplen, PROT_READ | PROT_WRITE, MAP_PRIVATE | MAP_ANONYMOUS, -1, 0);
        if (map == MAP_FAILED) { map = nullptr; abort(); }
        char *base = (char *)map;
        mprotect(base, pg, PROT_NONE);
        mprotect(base + pg + body, pg, PROT_NONE);
        memset(base + pg, 0xA5, body);
        if (upper)
        {
            size_t off = body - bytes;
            off -= off % align; // keep alignment; may leave < align slack bytes before the guard
            p = (T *)(base + pg + off);
        }
        else
            p = (T *)(base + pg);
    }
    ~GuardBuf()
    {
        if (map) munmap(map, maplen);
    }
    T &operator[](size_t i) { return p[i]; }
    T *data() { return p; }
};

struct Sentinel
{
    std::vector<uint64_t> cells;
    std::vector<uint8_t> designated; // 1 = input cell, 2 = output cell (may be both: 3)
    uint64_t sent;
    Sentinel(size_t n, uint64_t s) : cells(n, s), designated(n, 0), sent(s) {}
    void reset(uint64_t s)
    {
        sent = s;
        for (size_t i = 0; i < cells.size(); i++) { cells[i] = s; designated[i] = 0; }
    }
    // change the sentinel value of all undesignated cells (designations and operand values stay)
    void repaint(uint64_t s)
    {
        for (size_t i = 0; i < cells.size(); i++) if (!designated[i]) cells[i] = s;
        sent = s;
    }
    void set_in(size_t i, uint64_t v) { cells[i] = v; designated[i] |= 1; }
    void mark_out(size_t i) { designated[i] |= 2; }
    // index of the first undesignated cell that no longer holds the sentinel, or -1
    long first_stray_write() const
    {
        for (size_t i = 0; i < cells.size(); i++) if (!designated[i] && cells[i] != sent) return (long)i;
        return -1;
    }
};

} // namespace arena
