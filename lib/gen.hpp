// Operand generators shared by the arithmetic harnesses (G64 of DESIGN.md section 2).
// Directed families do not depend on the seed; the seed only varies the random filler.
#pragma once
#include <cstdint>
#include <vector>
#include <algorithm>
#include "harness.hpp"

namespace gen {

static const uint64_t GP = 0xFFFFFFFF00000001ULL;

static inline void uniq(std::vector<uint64_t> &v)
{
    std::sort(v.begin(), v.end());
    v.erase(std::unique(v.begin(), v.end()), v.end());
}

static const uint64_t ROOTS33[33] = {
    0x1ULL, 18446744069414584320ULL, 281474976710656ULL, 16777216ULL, 4096ULL, 64ULL, 8ULL,
    2198989700608ULL, 4404853092538523347ULL, 6434636298004421797ULL, 4255134452441852017ULL,
    9113133275150391358ULL, 4355325209153869931ULL, 4308460244895131701ULL, 7126024226993609386ULL,
    1873558160482552414ULL, 8167150655112846419ULL, 5718075921287398682ULL, 3411401055030829696ULL,
    8982441859486529725ULL, 1971462654193939361ULL, 6553637399136210105ULL, 8124823329697072476ULL,
    5936499541590631774ULL, 2709866199236980323ULL, 8877499657461974390ULL, 3757607247483852735ULL,
    4969973714567017225ULL, 2147253751702802259ULL, 2530564950562219707ULL, 1905180297017055339ULL,
    3524815499551269279ULL, 7277203076849721926ULL};

// (a) fixed boundary set B0
static inline std::vector<uint64_t> B0()
{
    std::vector<uint64_t> v;
    auto around = [&](uint64_t c, int lo, int hi) { for (int d = lo; d <= hi; d++) v.push_back(c + (uint64_t)(int64_t)d); };
    around(0, 0, 3);
    around(1ULL << 32, -2, 2);
    around(1ULL << 63, -1, 1);
    around((GP - 1) / 2, -1, 2);
    around(GP, -3, 3);
    around(0xFFFFFFFF00000000ULL - 0xFFFFFFFFULL, -1, 1); // 2^64 - 2^33 + 1 neighbourhood
    around(0xFFFFFFFEFFFFFFFFULL, -1, 1);
    around(0, -3, -1); // 2^64-3 .. 2^64-1
    v.push_back(0x5555555555555555ULL);
    v.push_back(0xAAAAAAAAAAAAAAAAULL);
    v.push_back(0x00000000FFFFFFFFULL);
    v.push_back(0xFFFFFFFFULL << 32);
    v.push_back(7);
    v.push_back(0x7FFFFFFFULL);
    v.push_back(0x80000000ULL);
    for (int i = 0; i < 33; i++) v.push_back(ROOTS33[i]);
    uniq(v);
    return v;
}
// (b) limb lattice: (h,l) in B32 x B32
static inline std::vector<uint64_t> lattice(vf::Rng *rng = nullptr)
{
    std::vector<uint32_t> b32 = {0u, 1u, 2u, 0x7FFFFFFFu, 0x80000000u, 0x80000001u, 0xFFFFFFFEu, 0xFFFFFFFFu};
    if (rng) { b32.push_back((uint32_t)rng->next()); b32.push_back((uint32_t)rng->next()); }
    std::vector<uint64_t> v;
    for (uint32_t h : b32) for (uint32_t l : b32) v.push_back(((uint64_t)h << 32) | l);
    uniq(v);
    return v;
}
// (c) signed sparse values  +-2^i +-2^j +-delta  (mod 2^64)
static inline uint64_t sparse(vf::Rng &r)
{
    uint64_t v = 0;
    int terms = 1 + (int)r.below(3);
    for (int t = 0; t < terms; t++)
    {
        uint64_t x = 1ULL << r.below(64);
        v = r.coin() ? v + x : v - x;
    }
    uint64_t d = r.below(4);
    return r.coin() ? v + d : v - d;
}
// (d) quotient-like values floor(k*2^64/m) +- delta
static inline uint64_t quotlike(vf::Rng &r)
{
    uint64_t m = 1 + r.below(r.coin() ? 255 : 65535);
    unsigned __int128 k = r.below(m) + 1;
    uint64_t q = (uint64_t)(((k << 64) - 1) / m);
    uint64_t d = r.below(3);
    return r.coin() ? q + d : q - d;
}
// (e) random with varied magnitude / run structure
static inline uint64_t varied(vf::Rng &r)
{
    switch (r.below(6))
    {
    case 0: return r.next();
    case 1: return r.next() >> r.below(64);                 // log-uniform magnitude
    case 2: return ~(r.next() >> r.below(64));              // near 2^64
    case 3: return GP - 1 - (r.next() >> (1 + r.below(63))); // just below p
    case 4: return GP + (r.next() & 0xFFFFFFFFULL) % 0xFFFFFFFFULL; // non-canonical band [p, 2^64)
    default:
    {
        // long runs of ones/zeros
        uint64_t x = r.coin() ? ~0ULL : 0ULL;
        int flips = 1 + (int)r.below(3);
        for (int f = 0; f < flips; f++) { unsigned s = (unsigned)r.below(64); x ^= (~0ULL << s); }
        return x;
    }
    }
}
// any of (a)-(e)
struct G64
{
    std::vector<uint64_t> fixed; // B0 + lattice
    G64()
    {
        fixed = B0();
        std::vector<uint64_t> l = lattice();
        fixed.insert(fixed.end(), l.begin(), l.end());
        uniq(fixed);
    }
    inline uint64_t pick(vf::Rng &r) const
    {
        switch (r.below(8))
        {
        case 0: case 1: return fixed[r.below(fixed.size())];
        case 2: return sparse(r);
        case 3: return quotlike(r);
        default: return varied(r);
        }
    }
    // canonical value (< p)
    inline uint64_t pick_canon(vf::Rng &r) const
    {
        uint64_t v = pick(r);
        return v >= GP ? v - GP : v;
    }
};

} // namespace gen
