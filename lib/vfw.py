#!/usr/bin/env python3
"""Driver-side framework: builds harnesses against /repo's current working tree, runs shards,
aggregates JSON-line results, matches known findings, writes evidence and replay files.
Only the python standard library is used."""
import concurrent.futures as cf
import glob
import hashlib
import json
import os
import re
import shutil
import subprocess
import sys
import tempfile
import time

VERIF = os.path.dirname(os.path.dirname(os.path.abspath(__file__)))
REPO = os.environ.get("VERIF_REPO", "/repo")
NCPU = int(os.environ.get("VERIF_JOBS", str(os.cpu_count() or 4)))
GUARD = "GOLDILOCKS_VERIF"

BASE = ["-std=gnu++17", "-D" + GUARD, "-I" + os.path.join(REPO, "src"), "-I" + os.path.join(VERIF, "lib"),
        "-Wno-unused-result"]
PROD = ["-O3", "-mavx2", "-fopenmp", "-pthread"]
SAN = ["-O1", "-g", "-fno-omit-frame-pointer", "-mavx2", "-fopenmp", "-pthread",
       "-fsanitize=address,undefined", "-fno-sanitize=vla-bound", "-fno-sanitize-recover=all"]
A512 = ["-mavx512f", "-D__AVX512__"]
FLAVOURS = {
    "prod": {"cxx": "g++", "flags": PROD, "ld": ["-fopenmp"]},
    "prod512": {"cxx": "g++", "flags": PROD + A512, "ld": ["-fopenmp"]},
    # a user's own build: everything this CPU offers (defines __AVX512VL__, __AVX512DQ__, __BMI2__, ... which code may test)
    "native": {"cxx": "g++", "flags": ["-O3", "-march=native", "-fopenmp", "-pthread"], "ld": ["-fopenmp"]},
    "native512": {"cxx": "g++", "flags": ["-O3", "-march=native", "-D__AVX512__", "-fopenmp", "-pthread"], "ld": ["-fopenmp"]},
    "asan": {"cxx": "g++", "flags": SAN, "ld": ["-fopenmp", "-fsanitize=address,undefined"]},
    "asan512": {"cxx": "g++", "flags": SAN + A512, "ld": ["-fopenmp", "-fsanitize=address,undefined"]},
    # production flags, OpenMP runtime replaced by the pthread stand-in (sequential / permuted / threads)
    "shim": {"cxx": "g++", "flags": PROD, "ld": [], "shim": True},
    "shim512": {"cxx": "g++", "flags": PROD + A512, "ld": [], "shim": True},
    "tsan": {"cxx": "g++", "flags": ["-O1", "-g", "-mavx2", "-fopenmp", "-pthread", "-fsanitize=thread",
                                     "-fno-builtin-memcpy", "-fno-builtin-memset", "-fno-builtin-memmove"],
             "ld": ["-fsanitize=thread"], "shim": True},
    "tsan512": {"cxx": "g++", "flags": ["-O1", "-g", "-mavx2", "-mavx512f", "-D__AVX512__", "-fopenmp", "-pthread", "-fsanitize=thread",
                                        "-fno-builtin-memcpy", "-fno-builtin-memset", "-fno-builtin-memmove"],
                "ld": ["-fsanitize=thread"], "shim": True},
    "fillA": {"cxx": "g++", "flags": PROD + ["-ftrivial-auto-var-init=pattern"], "ld": ["-fopenmp"]},
    "fillB": {"cxx": "g++", "flags": PROD + ["-ftrivial-auto-var-init=zero"], "ld": ["-fopenmp"]},
    "fillA512": {"cxx": "g++", "flags": PROD + A512 + ["-ftrivial-auto-var-init=pattern"], "ld": ["-fopenmp"]},
    "fillB512": {"cxx": "g++", "flags": PROD + A512 + ["-ftrivial-auto-var-init=zero"], "ld": ["-fopenmp"]},
    "fillAshim": {"cxx": "g++", "flags": PROD + ["-ftrivial-auto-var-init=pattern"], "ld": [], "shim": True},
    "fillBshim": {"cxx": "g++", "flags": PROD + ["-ftrivial-auto-var-init=zero"], "ld": [], "shim": True},
    "vg": {"cxx": "g++", "flags": ["-O1", "-g", "-mavx2", "-fopenmp", "-pthread"], "ld": ["-fopenmp"]},
    # the same with the OpenMP stand-in (sequential members): no thread start-up cost under valgrind / ASan
    "vgshim": {"cxx": "g++", "flags": ["-O1", "-g", "-mavx2", "-fopenmp", "-pthread"], "ld": [], "shim": True},
    "asanshim": {"cxx": "g++", "flags": SAN, "ld": ["-fsanitize=address,undefined"], "shim": True},
}
LIBS = ["-lgmpxx", "-lgmp", "-lpthread"]


class Inconclusive(Exception):
    pass


def log(*a):
    print(*a, flush=True)


def have_avx512():
    try:
        return "avx512f" in open("/proc/cpuinfo").read()
    except OSError:
        return False


class Work:
    """Private scratch directory, removed on exit."""

    def __init__(self, tag):
        root = os.path.join(VERIF, ".build")
        os.makedirs(root, exist_ok=True)
        # scratch directories of runs that were killed before they could clean up (older than 12 h) are removed here
        try:
            for d in os.listdir(root):
                pth = os.path.join(root, d)
                if re.match(r"C\d\d-(quick|thorough)-", d) and os.path.isdir(pth) and time.time() - os.path.getmtime(pth) > 12 * 3600:
                    shutil.rmtree(pth, ignore_errors=True)
        except OSError:
            pass
        self.dir = tempfile.mkdtemp(prefix=tag + "-", dir=root)

    def path(self, *p):
        return os.path.join(self.dir, *p)

    def cleanup(self):
        shutil.rmtree(self.dir, ignore_errors=True)


def _run(cmd, **kw):
    return subprocess.run(cmd, stdout=subprocess.PIPE, stderr=subprocess.STDOUT, text=True, **kw)


def repo_sources():
    return sorted(glob.glob(os.path.join(REPO, "src", "*.cpp")))


def build_many(work, jobs):
    """jobs: list of dicts {name, flavour, srcs:[harness sources], defs:[...], libsrcs: bool}
    Compiles all translation units of all jobs in one pool, then links. Returns {name: binary}."""
    tus = []  # (objpath, cmd)
    links = []
    for j in jobs:
        fl = FLAVOURS[j["flavour"]]
        odir = work.path("o-" + j["name"])
        os.makedirs(odir, exist_ok=True)
        srcs = list(j["srcs"])
        ls = j.get("libsrcs", True)
        if ls is True:
            srcs += repo_sources()
        elif ls:
            srcs += [os.path.join(REPO, "src", n) for n in ls]
        if fl.get("shim"):
            srcs.append(os.path.join(VERIF, "lib", "gomp_shim.cpp"))
        objs = []
        for s in srcs:
            o = os.path.join(odir, os.path.basename(s) + ".o")
            flags = list(fl["flags"])
            if s.endswith("gomp_shim.cpp"):
                # the stand-in itself is plain pthread code
                flags = [f for f in flags if f != "-fopenmp"]
            cmd = [fl["cxx"]] + BASE + flags + j.get("defs", []) + ["-c", s, "-o", o]
            tus.append((o, cmd))
            objs.append(o)
        binp = work.path(j["name"])
        links.append((j["name"], [fl["cxx"]] + objs + fl["ld"] + j.get("ld", []) + LIBS + ["-o", binp], binp))
    t0 = time.time()
    with cf.ThreadPoolExecutor(max_workers=NCPU) as ex:
        futs = {ex.submit(_run, cmd): (o, cmd) for o, cmd in tus}
        for f in cf.as_completed(futs):
            r = f.result()
            if r.returncode != 0:
                o, cmd = futs[f]
                raise Inconclusive("compile failed: %s\n%s" % (" ".join(cmd), r.stdout[-4000:]))
    out = {}
    with cf.ThreadPoolExecutor(max_workers=NCPU) as ex:
        futs = {ex.submit(_run, cmd): (name, cmd, binp) for name, cmd, binp in links}
        for f in cf.as_completed(futs):
            r = f.result()
            name, cmd, binp = futs[f]
            if r.returncode != 0:
                raise Inconclusive("link failed: %s\n%s" % (" ".join(cmd), r.stdout[-4000:]))
            out[name] = binp
    log("[build] %d translation units, %d binaries in %.1fs" % (len(tus), len(links), time.time() - t0))
    return out


class Results:
    def __init__(self):
        self.evaluations = 0
        self.nontrivial_total = 0
        self.counters = {}
        self.samples = {}
        self.hashes = set()
        self.violations = {}  # key -> detail (first)
        self.violation_counts = {}
        self.notes = []
        self.inconclusive = []
        self.runs = []
        self.digests = {}

    def add_line(self, obj, tag):
        t = obj.get("type")
        if t == "summary":
            self.evaluations += obj.get("evaluations", 0)
            self.nontrivial_total += obj.get("nontrivial_total", 0)
            for k, v in obj.get("counters", {}).items():
                self.counters[k] = self.counters.get(k, 0) + v
            for k, v in obj.get("samples", {}).items():
                lst = self.samples.setdefault(k, [])
                for s in v:
                    if len(lst) < 3:
                        lst.append(s)
            self.hashes.update(obj.get("nt_hashes", []))
            for k, v in obj.get("violation_counts", {}).items():
                self.violation_counts[k] = self.violation_counts.get(k, 0) + v
            for k, v in obj.get("digests", {}).items():
                self.digests[k] = (self.digests.get(k, 0) + v) & 0xFFFFFFFFFFFFFFFF
        elif t == "violation":
            k = obj["key"]
            if k not in self.violations:
                d = obj.get("detail", {})
                if isinstance(d, dict):
                    d["_run"] = tag
                self.violations[k] = d
            self.violation_counts.setdefault(k, 1)
        else:
            self.notes.append(obj)

    def merge(self, other):
        self.evaluations += other.evaluations
        self.nontrivial_total += other.nontrivial_total
        for k, v in other.counters.items():
            self.counters[k] = self.counters.get(k, 0) + v
        for k, v in other.samples.items():
            lst = self.samples.setdefault(k, [])
            for s in v:
                if len(lst) < 3:
                    lst.append(s)
        self.hashes |= other.hashes
        for k, v in other.violations.items():
            self.violations.setdefault(k, v)
        for k, v in other.violation_counts.items():
            self.violation_counts[k] = self.violation_counts.get(k, 0) + v
        for k, v in other.digests.items():
            self.digests[k] = (self.digests.get(k, 0) + v) & 0xFFFFFFFFFFFFFFFF
        self.notes += other.notes
        self.inconclusive += other.inconclusive
        self.runs += other.runs


def run_shards(work, binary, prop, tier, seed, nshards, args=(), env=None, tag=None, timeout=3600,
               wrapper=(), expect_exit=(0,), stdin=None):
    """Run nshards copies of a harness in parallel; return Results."""
    tag = tag or os.path.basename(binary)
    res = Results()
    procs = []
    e = dict(os.environ)
    e.setdefault("OMP_WAIT_POLICY", "passive")
    e["ASAN_OPTIONS"] = e.get("VERIF_ASAN_OPTIONS", "abort_on_error=1:halt_on_error=1:detect_leaks=0:alloc_dealloc_mismatch=1:detect_stack_use_after_return=1:allocator_may_return_null=1")
    e["UBSAN_OPTIONS"] = "print_stacktrace=1:halt_on_error=1"
    if env:
        e.update(env)
    t0 = time.time()
    errdir = work.path("err-" + tag)
    os.makedirs(errdir, exist_ok=True)
    for i in range(nshards):
        out = work.path("out-%s-%d.jsonl" % (tag, i))
        if os.path.exists(out):
            os.unlink(out)
        cmd = list(wrapper) + [binary, "--prop", prop, "--tier", tier, "--seed", str(seed), "--shard", "%d/%d" % (i, nshards),
                               "--out", out, "--errdir", errdir] + list(args)
        ef = open(work.path("stderr-%s-%d.txt" % (tag, i)), "w")
        p = subprocess.Popen(cmd, stdout=ef, stderr=subprocess.STDOUT, env=e, cwd=work.dir)
        procs.append((p, out, ef, cmd))
    deadline = t0 + timeout
    for p, out, ef, cmd in procs:
        try:
            p.wait(timeout=max(1, deadline - time.time()))
        except subprocess.TimeoutExpired:
            p.kill()
            p.wait()
            res.inconclusive.append("watchdog: shard timed out after %ds: %s" % (timeout, " ".join(cmd)))
        ef.close()
        if os.path.exists(out):
            with open(out, errors="replace") as f:
                for ln in f:
                    ln = ln.strip()
                    if not ln:
                        continue
                    try:
                        res.add_line(json.loads(ln), tag)
                    except json.JSONDecodeError:
                        res.inconclusive.append("unparsable harness output line in %s" % out)
        if p.returncode == 86:
            res.inconclusive.append("the OpenMP stand-in cannot execute a construct the library now uses (%s): %s" % (tag, open(ef.name, errors="replace").read()[-300:].strip()))
        elif p.returncode not in expect_exit and p.returncode is not None:
            serr = open(ef.name, errors="replace").read()[-3000:]
            # a harness process that died outside a forked case group: attribute as a violation of the run itself
            kind = classify_death(serr, p.returncode)
            res.violations.setdefault("%s:%s:process:%s" % (prop, tag, kind),
                                      {"cmd": " ".join(cmd), "returncode": p.returncode, "stderr": serr, "_run": tag})
    res.runs.append({"tag": tag, "shards": nshards, "wall_s": round(time.time() - t0, 2)})
    return res


def classify_death(serr, rc):
    m = re.search(r"ERROR: AddressSanitizer: ([\w-]+)", serr)
    if m:
        return "asan-" + m.group(1)
    m = re.search(r"runtime error: ([^\n]{0,60})", serr)
    if m:
        return "ubsan-" + re.sub(r"\d+", "#", m.group(1))
    if "LeakSanitizer: detected memory leaks" in serr:
        m = re.search(r"#\d+ 0x[0-9a-f]+ in (\S+) (/\S*/src/\S+)", serr)
        return "lsan-leak" + ("@" + m.group(1) if m else "")
    if "ThreadSanitizer" in serr:
        return "tsan"
    return "rc%s" % rc


def parse_tsan_logs(pattern):
    """ThreadSanitizer reports from log files -> {key: excerpt}; key = kind + the first repository frame of each of the two accesses"""
    out = {}
    nreports = 0
    for path in glob.glob(pattern):
        txt = open(path, errors="replace").read()
        for blk in txt.split("==================")[1:]:
            m = re.search(r"WARNING: ThreadSanitizer: ([^(\n]+)", blk)
            if not m:
                continue
            nreports += 1
            kind = m.group(1).strip().replace(" ", "-")
            frames = []
            # split into access sections: each starts with a line ending in ':' that is not a frame
            for sec in re.split(r"\n\s*\n", blk):
                first = None
                for ln in sec.splitlines():
                    fm = re.match(r"\s+#\d+ (.+?) (/\S+):(\d+)", ln)
                    if fm and "/src/" in fm.group(2) and "libsanitizer" not in fm.group(2):
                        fn = re.sub(r"\(.*", "", fm.group(1)).strip()
                        first = fn + "@" + os.path.basename(fm.group(2))
                        break
                if first and ("of size" in sec.split("\n")[0] or "of size" in sec[:200]):
                    frames.append(first)
            key = "tsan:%s:%s" % (kind, "|".join(sorted(set(frames[:2]))) or "unknown-frames")
            out.setdefault(key, blk[:3000])
    return out, nreports


def parse_valgrind(text):
    """memcheck error blocks -> {key: excerpt}; key = error kind + first frame inside the repository sources"""
    out = {}
    kinds = ["Conditional jump or move depends on uninitialised value", "Use of uninitialised value", "Invalid read", "Invalid write",
             "Mismatched free", "Invalid free", "Syscall param", "Source and destination overlap", "Argument .* is not a valid", "definitely lost"]
    lines = text.splitlines()
    i = 0
    while i < len(lines):
        ln = re.sub(r"^==\d+== ?", "", lines[i])
        kind = None
        for k in kinds:
            if re.match(k, ln):
                kind = re.sub(r"[^A-Za-z]+", "-", ln.split(" of size")[0].strip())[:50]
                break
        if kind:
            frame = "unknown-frame"
            j = i + 1
            blk = [lines[i]]
            while j < len(lines) and re.match(r"^==\d+==\s+(at|by) ", lines[j]):
                blk.append(lines[j])
                m = re.search(r"(?:at|by) 0x[0-9A-F]+: (.+?) \((\S+?):(\d+)\)", lines[j])
                if m and frame == "unknown-frame" and re.search(r"(goldilocks|ntt_|poseidon|merklehash)", m.group(2)) :
                    frame = re.sub(r"\(.*", "", m.group(1)) + "@" + m.group(2)
                j += 1
            out.setdefault("memcheck:%s:%s" % (kind, frame), "\n".join(blk[:14]))
            i = j
        else:
            i += 1
    return out


# ----------------------------------------------------------------------------- known findings
def load_known():
    """known_findings.txt: one finding per line.
       open: property=<ID> key=<regex over violation keys> :: <what fails>     (suppresses exactly the matching keys)
       fixed: property=<ID> <commit> <what failed>                              (documentation only, suppresses nothing)"""
    path = os.path.join(VERIF, "known_findings.txt")
    out = []
    if os.path.exists(path):
        for ln in open(path):
            ln = ln.strip()
            m = re.match(r"open:\s+property=(\S+)\s+key=(\S+)\s+::\s+(.*)$", ln)
            if m:
                out.append({"status": "open", "property": m.group(1), "key_regex": m.group(2), "what": m.group(3)})
    return out


def finalize(prop, tier, seed, res, t0, rule, level="exploration", assumptions=(), required=(), extra_cov=None,
             min_eval=1, replay_info=None):
    """Write evidence, print verdict lines, return the exit code."""
    known = [k for k in load_known() if k.get("property") == prop]
    unknown = {}
    known_hit = {}
    for key, detail in res.violations.items():
        hit = None
        for k in known:
            if k.get("status") == "open" and re.search(k["key_regex"], key):
                hit = k
                break
        if hit:
            known_hit.setdefault(hit["key_regex"], (hit, []))[1].append(key)
        else:
            unknown[key] = detail
    missing = [c for c in required if res.counters.get(c, 0) == 0]
    inconc = list(res.inconclusive)
    if missing:
        inconc.append("required path classes / hooks with zero observations: " + ", ".join(missing))
    if res.evaluations < min_eval:
        inconc.append("too few evaluations: %d" % res.evaluations)
    # mutation runs (tools/run_seeded.py) redirect evidence and replays so that committed evidence is never overwritten by them
    outroot = os.environ.get("VERIF_OUT_DIR", VERIF)
    os.makedirs(os.path.join(outroot, "replays"), exist_ok=True)
    os.makedirs(os.path.join(outroot, "evidence"), exist_ok=True)
    vio_lines = []
    for key, detail in sorted(unknown.items()):
        h = hashlib.sha1(key.encode()).hexdigest()[:12]
        rp = os.path.join(outroot, "replays", "%s-%s.json" % (prop, h))
        with open(rp, "w") as f:
            json.dump({"property": prop, "key": key, "tier": tier, "seed": seed, "detail": detail,
                       "count": res.violation_counts.get(key, 1), "replay": replay_info or {}}, f, indent=1)
        vio_lines.append("VIOLATION property=%s replay=%s" % (prop, rp))
        log("  violation key: %s" % key)
        log("  detail: %s" % json.dumps(detail)[:1200])
    samples = []
    for fam, lst in sorted(res.samples.items()):
        for s in lst[:2]:
            samples.append({"family": fam, "case": s})
    if not samples:
        samples = [{"family": "none", "case": "no sample recorded"}]
    cov = {
        "evaluations": int(res.evaluations),
        "distinct_nontrivial": int(len(res.hashes)),
        "nontrivial_total_not_deduplicated": int(res.nontrivial_total),
        "rule": rule,
        "samples": samples[:40],
        "observed_classes": dict(sorted(res.counters.items())),
        "runs": res.runs,
        "exhaustive": False,
    }
    if extra_cov:
        cov.update(extra_cov)
    ev = {
        "property_id": prop, "tier": tier, "seed": int(seed), "level": level, "coverage": cov,
        "assumptions": list(assumptions), "wall_s": round(time.time() - t0, 2),
        "violations": len(unknown),
        "known_findings_hit": [k["what"] for k, _ in known_hit.values()],
        "inconclusive": inconc,
    }
    with open(os.path.join(outroot, "evidence", prop + ".json"), "w") as f:
        json.dump(ev, f, indent=1)
    for hit, keys in known_hit.values():
        print("KNOWN-FINDING: property=%s %s" % (prop, hit["what"]), flush=True)
    for ln in vio_lines:
        print(ln, flush=True)
    log("[%s %s seed=%s] evaluations=%d distinct_nontrivial=%d classes=%d violations=%d known=%d wall=%.1fs" % (
        prop, tier, seed, res.evaluations, len(res.hashes), len(res.counters), len(unknown), len(known_hit), time.time() - t0))
    if unknown:
        return 1
    if inconc:
        for m in inconc:
            log("INCONCLUSIVE: " + m)
        return 2
    return 0
