"""C20 -- GPU field arithmetic (gl64_t) and device tables implement the same field as the CPU.

No GPU and no nvcc exist in the sandbox.  The check executes the real inline-PTX text of
src/gl64_t.cuh (current working tree) on the host:
  tools/ptx_rewrite.py   rewrites every asm statement into ptx::exec("<same text>", outs, ins) and extracts the three
                         33-entry device tables of src/ntt_goldilocks.cuh into a generated header;
  lib/ptx_interp.hpp     concrete interpreter of the PTX subset (self-tested against hand-computed carry cases);
  harness/ptxemu.cpp     compares every public gl64_t operation with the u128 oracle and the tables with the CPU table.
Four builds: __CUDA_ARCH__ 700 / 600 x fully reduced / GL64_PARTIALLY_REDUCED, production flags, plus an
ASan+UBSan build of each running a smaller slice."""
import concurrent.futures as cf
import os
import subprocess
import sys
import time

import vfw
from vfw import VERIF, NCPU, REPO

H = lambda n: os.path.join(VERIF, "harness", n)

VARIANTS = [  # (name, arch, partially reduced)
    ("arch700:full", 700, False),
    ("arch600:full", 600, False),
    ("arch700:pr", 700, True),
    ("arch600:pr", 600, True),
]

RULE = (
    "Every asm statement of gl64_t.cuh is executed as written by a concrete PTX interpreter, in four host builds (__CUDA_ARCH__=700/600, "
    "fully reduced / GL64_PARTIALLY_REDUCED). Operand pairs: full cross product of the fixed set (boundary values B0 + 8x8 limb lattice), "
    "solve-for families built backwards from the intermediate value (sums next to p, 2^64, 2p, 2^64+p; differences next to 0 and the 2^32-1 "
    "lifting threshold; 128-bit product patterns with hi_lo=0xffffffff, hi_lo+hi_hi carrying, lo~hi, results next to 0; products with a chosen "
    "residue in [0,2^32-1) -- the only residues with a second 64-bit representative, i.e. where the final conditional subtraction can be needed; "
    "word multipliers solved the same way) and a seed-dependent mixed random filler. Each pair runs + += (also self-aliased), - -=, unary -, "
    "cneg, * *= (also self-aliased), sqr, * and *= by three 32-bit words, and at fixed sub-rates ^ (uint32/int exponent), <<, >>, csel, czero, "
    "reciprocal, /, heptaroot, dot_product<4> (element and uint8 weights); single values run the constructors, to()/from(), operator uint64_t, store, is_zero/is_one. Fully reduced builds "
    "get canonical operands and the stored result must equal the canonical oracle value bit for bit; in addition the multiplication family is "
    "run on arbitrary 64-bit multiplicands (documented tolerance). GL64_PARTIALLY_REDUCED builds run every operation on canonical and on "
    "arbitrary 64-bit operands; the stored result must be congruent and the public conversion canonical. Tables: for i=0..32 omegas[i] equals "
    "Goldilocks::w(i) and the published root, has exact order 2^i, omegas[i]*omegas_inv[i]=1, domain_size_inverse[i]*2^i=1 (oracle and emulated "
    "device multiplication). A pair is non-trivial when its path signature (outcomes of all .cc instructions and guards) has at least one carry "
    "or one executed guarded instruction; distinct = hash of (operation, operands, signature) in a capped set (65536 per process), a lower bound."
)

ASSUME = [
    "lib/ptx_interp.hpp reads the PTX ISA correctly for the 23 opcode spellings used (add/addc/sub/subc[.cc] u32/u64, mul.lo/hi, mad/madc.lo/hi[.cc], "
    "setp.eq/ne, selp, mov.b64 incl. {lo,hi} packing, guards, .reg scopes, trap): CC.CF written only by .cc forms, sub/subc write the borrow, "
    "subc computes a-(b+CF), CC.CF persists across asm statements; it is unit-tested on hand-computed cases at the start of every harness process",
    "every asm operand is its own virtual register (as nvcc emits PTX); ptxas register allocation, SASS and real devices are not modelled",
    "tools/ptx_rewrite.py passes the asm text and operand expressions through unchanged (it exits non-zero on anything it cannot parse; "
    "every template, executed or not, is validated against the interpreter's subset)",
    "the u128 '%' oracle is correct (cross-checked against GMP in C01)",
    "kernels in *.cu / ntt_goldilocks.cuh (launch geometry, memory traffic) are not executed; only the rows of the three tables are checked",
    "verdict covers executed operands only; nothing is claimed about operands not executed",
]

# path classes that the directed, seed-independent families reach in every variant (verified with --pairs 0)
REQ_ALL = ["add:sum_lt_p", "add:sum_ge_p", "add:sum_ge_2^64", "sub:no_borrow", "sub:borrow", "neg:zero", "neg:nonzero",
           "mul:hi_zero", "mul:lo_lt_hi", "mul:lo_ge_hi", "mul:lo_lt_hisum", "mul:lo_ge_hisum", "mul:hisum_carry", "mul:hi_lo_ffffffff",
           "mul:hi_hi_ffffffff", "mulw:product_lt_2^64", "mulw:product_ge_2^64", "reduce:input_ge_p", "reduce:input_lt_p",
           "reduce:subtraction_taken", "reduce:subtraction_skipped", "in:partially_reduced_operand", "pow:cases", "shift:cases",
           "reciprocal:cases", "dot_product:cases", "family:fixed_x_fixed", "family:solve_add", "family:solve_sub", "family:solve_mul_target",
           "family:solve_mul_residue", "family:solve_mulw_residue", "op:ctor", "op:convert", "op:csel", "op:czero",
           "interp:guarded_instruction_executed", "interp:guarded_instruction_skipped", "interp:cc_carry_set", "interp:cc_carry_clear"]
REQ_FULL = ["mul:final_subtraction_taken", "mul:final_subtraction_skipped", "mulw:final_subtraction_taken", "mulw:final_subtraction_skipped"]
REQ_PR = ["add@pr:sum_ge_2^64", "add@pr:sum_lt_2^64", "sub@pr:minuend_lifted_by_p", "sub@pr:minuend_kept", "neg:zero_alias_p",
          "mul:partially_reduced_result_ge_p", "mul:partially_reduced_result_lt_p", "out:stored_value_ge_p"]
REQ_GLOBAL = ["interp:selftest_passed", "interp:templates_validated", "tables:rows_checked", "tables:omegas_vs_cpu_table",
              "tables:omegas_inv_products", "tables:domain_size_inverse_products"]


def required_classes():
    req = list(REQ_GLOBAL)
    for name, _arch, pr in VARIANTS:
        for c in REQ_ALL + (REQ_PR if pr else REQ_FULL):
            req.append(name + ":" + c)
    return req


def _sources():
    """Input files; the two environment variables exist only so that the monitor can be shown to fire on a scratch copy."""
    hdr = os.environ.get("VERIF_C20_HEADER") or os.path.join(REPO, "src", "gl64_t.cuh")
    tabs = os.environ.get("VERIF_C20_TABLES")
    if tabs:
        tabs = tabs.split(":")
    else:
        d = os.path.join(REPO, "src")
        tabs = sorted(os.path.join(d, x) for x in os.listdir(d) if x.endswith((".cu", ".cuh")))
    return hdr, tabs


def check_c20(prop, tier, seed, work, t0):
    th = tier == "thorough"
    hdr, tabs = _sources()
    gen_h = work.path("gl64_t_host.hpp")
    gen_t = work.path("gpu_tables_gen.hpp")
    cmd = [sys.executable, os.path.join(VERIF, "tools", "ptx_rewrite.py"), "--in", hdr, "--out", gen_h, "--tables-in"] + tabs + ["--tables-out", gen_t]
    r = subprocess.run(cmd, stdout=subprocess.PIPE, stderr=subprocess.STDOUT, text=True)
    for ln in r.stdout.splitlines():
        vfw.log("[c20] " + ln)
    if r.returncode != 0 or not os.path.exists(gen_h) or not os.path.exists(gen_t):
        raise vfw.Inconclusive("ptx_rewrite.py could not translate the CUDA sources (exit %d):\n%s" % (r.returncode, r.stdout[-3000:]))
    rewrite_info = [ln for ln in r.stdout.splitlines() if ln.startswith("ptx_rewrite:")]

    jobs = []
    for name, arch, pr in VARIANTS:
        defs = ["-D__USE_CUDA__", "-D__CUDA_ARCH__=%d" % arch, "-I" + work.dir, "-Wno-unknown-pragmas"] + (["-DGL64_PARTIALLY_REDUCED"] if pr else [])
        tag = name.replace(":", "-")
        jobs.append({"name": "ptxemu-%s-prod" % tag, "flavour": "prod", "srcs": [H("ptxemu.cpp")], "defs": defs, "libsrcs": ["goldilocks_base_field.cpp"]})
        # -g1: line tables and function names are enough for sanitizer reports; full -g doubles the compile time of this TU
        jobs.append({"name": "ptxemu-%s-asan" % tag, "flavour": "asan", "srcs": [H("ptxemu.cpp")], "defs": defs + ["-g1"], "libsrcs": ["goldilocks_base_field.cpp"]})
    bins = vfw.build_many(work, jobs)

    res = vfw.Results()
    pairs_prod = 48000000 if th else 24000      # random filler pairs per operand representation and variant (~16 oracle comparisons each)
    pairs_asan = 1000000 if th else 4000
    nsh_asan = NCPU if th else max(1, NCPU // 2)
    runs = []
    for name, arch, pr in VARIANTS:
        tag = name.replace(":", "-")
        runs.append((bins["ptxemu-%s-prod" % tag], seed, NCPU, ["--pairs", str(pairs_prod), "--runtag", "prod"], tag + "-prod"))
        runs.append((bins["ptxemu-%s-asan" % tag], seed + 1000003, nsh_asan,
                     ["--pairs", str(pairs_asan), "--directed-scale", "100" if th else "10", "--runtag", "asan"], tag + "-asan"))
    # the eight runs are independent (own output files per tag); a few at a time keep all cores busy without oversubscribing much
    with cf.ThreadPoolExecutor(max_workers=2 if th else 4) as ex:
        futs = [ex.submit(vfw.run_shards, work, b, prop, tier, sd, n, a, tag=tg, timeout=7200 if th else 900, expect_exit=(0, 2))
                for b, sd, n, a, tg in runs]
        for f in futs:
            res.merge(f.result())
    # harness-side failures (interpreter self-test, PTX outside the subset, unexpected trap) are never violations and never green
    sigs = {}
    for n in res.notes:
        t = n.get("type")
        d = n.get("detail", {})
        if t == "harness_failure":
            msg = "harness failure: %s %s" % (d.get("what", ""), d.get("message", d.get("statement", "")))
            if msg not in res.inconclusive:
                res.inconclusive.append(msg)
        elif t == "paths":
            for op, lst in d.get("signatures", {}).items():
                sigs.setdefault(d.get("variant", "?") + ":" + op, set()).update(lst)
    for name, _arch, _pr in VARIANTS:
        for runtag, n in (("prod", NCPU), ("asan", nsh_asan)):
            got = res.counters.get("%s:run:shards_completed:%s" % (name, runtag), 0)
            if got != n:
                res.inconclusive.append("%s %s: %d of %d harness shards ran to completion" % (name, runtag, got, n))
    res.notes = [n for n in res.notes if n.get("type") not in ("paths",)]
    extra = {
        "sources": {"header": hdr, "tables": tabs, "overridden_by_environment": bool(os.environ.get("VERIF_C20_HEADER") or os.environ.get("VERIF_C20_TABLES"))},
        "rewriter": rewrite_info,
        "variants": [v[0] for v in VARIANTS],
        "distinct_path_signatures": {k: len(v) for k, v in sorted(sigs.items())},
        "not_reached": "ptxas/SASS, kernels in *.cu, real devices; dot_product<T> only for T=4",
    }
    return vfw.finalize(prop, tier, seed, res, t0, RULE, assumptions=ASSUME, required=required_classes(), extra_cov=extra, min_eval=1000000,
                        replay_info={"harness": "ptxemu.cpp", "how": "./check C20 --replay <file> (re-runs the recorded tier and seed; the detail holds "
                                     "arch, variant, operation and operands of the first failing case)"})


MANIFEST_TEXT = {
    "C20": ("ptxemu",
            "concrete interpretation of the real inline-PTX text of gl64_t.cuh (rewritten asm -> ptx::exec) with a differential u128 oracle over "
            "boundary-directed operand families; device table rows checked against the CPU table",
            "All public gl64_t operations are executed through a concrete PTX interpreter in four host builds (__CUDA_ARCH__ 700/600 x fully "
            "reduced/GL64_PARTIALLY_REDUCED, production and ASan/UBSan flags) on operand pairs constructed to reach each carry, borrow and "
            "final-subtraction path (required classes per variant, a missing one makes the run inconclusive) and on random filler: about 2*10^7 "
            "oracle comparisons in quick, 10^9 in thorough; the 3x33 table rows are compared with Goldilocks::w, the published roots and their "
            "inverse identities. Held on the executed operands only.",
            "emulated execution: the trusted base is the interpreter's reading of the PTX ISA (self-tested each run) and the rewriter; ptxas, SASS, "
            "device kernels and real GPUs are not reached; unparsable asm or PTX outside the subset gives INCONCLUSIVE, never green"),
}


def register(reg):
    reg["C20"] = check_c20
