"""C17: strided / offset / broadcast base-field wrappers (copy/add/sub/mul _batch, _avx, _avx512) and parcpy / parSetZero.

check_c17:  1. re-parse the CURRENT goldilocks_base_field.hpp with tools/gen_overloads.py; the run is INCONCLUSIVE when a
               declaration does not fit the classification rule or the overload set differs from tools/overloads_c17.json;
            2. generate the thunk units into the private build directory, build harness/wrappers17.cpp in the flavours
               prod, prod512, asan, asan512; link-probe every overload the table calls "undefined" (it must NOT link);
            3. run the sentinel-arena monitor over every defined overload and the parcpy/parSetZero grid; every defined
               overload of the table is a required counter (a run that exercised fewer overloads is inconclusive)."""
import concurrent.futures as cf
import os
import subprocess
import sys

import vfw
from vfw import VERIF, NCPU

sys.path.insert(0, os.path.join(VERIF, "tools"))
import gen_overloads  # noqa: E402

H = lambda n: os.path.join(VERIF, "harness", n)

RULE = ("every overload of copy/add/sub/mul _batch, _avx (and, in the 512 builds, _avx512) declared in the current "
        "goldilocks_base_field.hpp that touches memory, a broadcast element or mixes registers with them (table tools/overloads_c17.json, "
        "re-derived and compared at check time) is called through a generated thunk of its exact signature. Per trial: each memory "
        "operand lives in its own sentinel arena at a random base offset; input strides from {0,1,2,3,4,7,13,64,1000}, output strides from "
        "the same set without 0; index lists random (ranges lanes..7001) / permuted / with repeats (inputs only) / identity / reversed, "
        "distinct for outputs; one trial in eight of the memory->memory add/sub/mul overloads places the result exactly on one input; "
        "values from G64 (boundary set, limb lattice, sparse, quotient-like, random; non-canonical representations included). Checked: lane k of the "
        "result == op(a_k,b_k) under the family convention (field ops canonicalised, copies bit-identical), no undesignated cell / input "
        "cell / index list changed, and a second call with another sentinel and other previous result contents returns identical bits. "
        "parcpy/parSetZero: sizes {0,1,2,3,7,8,63,64,65,1000,2^20+3} x thread arguments {INT_MIN,-1,0,1,2,3,7,64,size,size+1,1000} x "
        "{guard page behind the last element, guard page before the first, sentinel frame} on libgomp with OMP_THREAD_LIMIT=1024. "
        "A trial counts as one evaluation (two calls); every trial is non-trivial (strided/indexed/broadcast placement); distinct = hash "
        "of the trial seed, capped set, so distinct_nontrivial is a lower bound.")

ASSUME = [
    "the u128 '%' reference arithmetic is correct (cross-checked against GMP by the C01 harness)",
    "expected behaviour is the family convention derived from parameter names (suffix _a/1, _b/2, _c/_dst; copies: stride follows its operand), not any single definition",
    "overlapping result positions (stride 0 or repeated indices on a result) are excluded: the outcome would be order dependent by definition",
    "a stray read that does not change the result bits and stays inside mapped memory is only caught by the ASan flavours (beyond the arena) - inside the arena it is invisible by design",
    "libgomp team sizes are capped by OMP_THREAD_LIMIT=1024 (thread arguments 2^20+3 / 2^20+4 are delivered as arguments but run on <= 1024 threads)",
    "g++ 12 and the sanitizer runtimes of this sandbox behave as documented",
    "verdict covers executed inputs/configurations only",
]

MANIFEST_TEXT = {
    "C17": ("sentinel-arena overload monitor + guard-page copy grid (harness/wrappers17.cpp, tools/gen_overloads.py)",
            "runtime monitoring: generated thunk per declared overload, u128 oracle per lane, sentinel arenas for stray writes, "
            "differential sentinel re-run for stray reads, fork-per-group crash attribution, ASan/UBSan flavours, guard-page and framed "
            "buffers for parcpy/parSetZero, header re-parse against the committed overload table",
            "exploration",
            "randomised + directed placements over all declared overloads; not exhaustive over values, strides or index lists"),
}


def _probe_undefined(work, entries):
    """every overload recorded as undefined must fail to link with an undefined reference to that function"""
    msgs = []
    listed = []

    def one(i, e):
        src = work.path("probe_%d.cpp" % i)
        with open(src, "w") as f:
            f.write(gen_overloads.probe_source(e))
        cmd = ["g++"] + vfw.BASE + ["-O0", "-mavx2", "-mavx512f", "-D__AVX512__", "-fopenmp", src,
                                         os.path.join(vfw.REPO, "src", "goldilocks_base_field.cpp"), "-o", work.path("probe_%d" % i)] + vfw.LIBS
        r = subprocess.run(cmd, stdout=subprocess.PIPE, stderr=subprocess.STDOUT, text=True)
        return e, r

    und = [e for e in entries if not e["defined"]]
    with cf.ThreadPoolExecutor(max_workers=4) as ex:
        for e, r in ex.map(lambda t: one(*t), list(enumerate(und))):
            listed.append(e["signature"])
            if r.returncode == 0:
                msgs.append("the table records %s as undefined but a program taking its address links" % e["signature"])
            elif ("undefined reference to `Goldilocks::%s(" % e["function"]) not in r.stdout:
                msgs.append("link probe for %s failed for another reason: %s" % (e["signature"], r.stdout[-600:]))
    return listed, msgs


def check_c17(prop, tier, seed, work, t0):
    th = tier == "thorough"
    # ---- 1. table consistency (never skip, never guess)
    try:
        entries, excluded, deffiles = gen_overloads.parse_repo(vfw.REPO)
    except gen_overloads.Unfit as ex:
        raise vfw.Inconclusive("C17 overload table: %s" % ex)
    current = gen_overloads.table_of(entries, excluded)
    try:
        committed = gen_overloads.load_table()
    except (OSError, ValueError) as ex:
        raise vfw.Inconclusive("C17 committed overload table unreadable: %s" % ex)
    diffs = gen_overloads.compare(current, committed)
    if diffs:
        raise vfw.Inconclusive("C17: the overload set of the current header differs from tools/overloads_c17.json "
                               "(regenerate with tools/gen_overloads.py --write-table after review):\n  " + "\n  ".join(diffs[:40]))
    if not vfw.have_avx512():
        raise vfw.Inconclusive("C17: CPU without AVX-512F, the _avx512 overloads cannot be executed")
    gdir = work.path("gen17")
    thunks = gen_overloads.emit(entries, gdir)
    srcs = [H("wrappers17.cpp")] + thunks
    lib = ["goldilocks_base_field.cpp"]
    jobs = [{"name": "w17-" + fl, "flavour": fl, "srcs": srcs, "libsrcs": lib} for fl in ("prod", "prod512", "asan", "asan512")]
    with cf.ThreadPoolExecutor(max_workers=1) as ex:
        probe = ex.submit(_probe_undefined, work, entries)
        bins = vfw.build_many(work, jobs)
        undefined, probe_msgs = probe.result()
    if probe_msgs:
        raise vfw.Inconclusive("C17: " + "; ".join(probe_msgs))

    # ---- 2. runs.  trials per overload: quick ~2000 (prod) + 2000 (prod512) + sanitizer slices; thorough ~10^6 in total
    n_prod = 3000000 if th else 2000
    n_asan = 300000 if th else 2000
    res = vfw.Results()
    tmo = 7200 if th else 1500
    res.merge(vfw.run_shards(work, bins["w17-prod"], prop, tier, seed, NCPU, ["--part", "wrappers", "--trials", str(n_prod)], tag="prod", timeout=tmo))
    res.merge(vfw.run_shards(work, bins["w17-prod512"], prop, tier, seed + 101, NCPU, ["--part", "wrappers", "--trials", str(n_prod)], tag="prod512", timeout=tmo))
    res.merge(vfw.run_shards(work, bins["w17-asan"], prop, tier, seed + 1000003, NCPU, ["--part", "wrappers", "--trials", str(n_asan)], tag="asan", timeout=tmo))
    res.merge(vfw.run_shards(work, bins["w17-asan512"], prop, tier, seed + 1000104, NCPU, ["--part", "wrappers", "--trials", str(n_asan)], tag="asan512", timeout=tmo))
    # parcpy / parSetZero: few shards (team sizes up to 1024 threads per shard)
    penv = {"OMP_THREAD_LIMIT": "1024"}
    res.merge(vfw.run_shards(work, bins["w17-prod"], prop, tier, seed, 4, ["--part", "par"], env=penv, tag="par-prod", timeout=tmo))
    res.merge(vfw.run_shards(work, bins["w17-asan"], prop, tier, seed + 7, 4, ["--part", "par"], env=penv, tag="par-asan", timeout=tmo))

    # ---- 3. required observations: every defined overload of the table, every stride, every index kind, the par grid corners
    required = ["ov:%s:%s" % (e["family"], e["id"]) for e in entries if e["defined"]]
    required += ["stride:in:%d" % s for s in (0, 1, 2, 3, 4, 7, 13, 64, 1000)]
    required += ["stride:out:%d" % s for s in (1, 2, 3, 4, 7, 13, 64, 1000)]
    required += ["index:in:" + k for k in ("random", "permuted", "repeats", "identity", "reversed_stride", "aliased_to_result")]
    required += ["index:out:" + k for k in ("random", "permuted", "identity", "reversed_stride")]
    required += ["shape:in:" + s for s in ("contiguous", "stride", "index", "broadcast", "register")]
    required += ["shape:out:" + s for s in ("contiguous", "stride", "index", "register")]
    required += ["mode:result_aliases_input", "mode:result_register_is_input_register", "mode:concurrent_callers_trials", "mode:third_call_same_addresses_changed_contents", "mode:inputs_of_exact_extent_before_unmapped_page_or_redzone", "mode:broadcast_scalar_is_an_lvalue_in_the_result_array", "mode:both_inputs_read_from_the_same_array",
                 "values:trials_with_noncanonical_input", "values:noncanonical_result_lanes"]
    required += ["trials:batch", "trials:avx", "trials:avx512", "par:parcpy", "par:parSetZero", "par:size_zero", "par:thread_arg_nonpositive",
                 "par:thread_arg:INT_MIN", "par:thread_arg:-1", "par:thread_arg:0", "par:thread_arg:1", "par:thread_arg:64", "par:thread_arg:1000",
                 "par:thread_arg:size", "par:thread_arg:size+1", "par:size:1048579", "par:variant:guard_upper", "par:variant:guard_lower",
                 "par:variant:framed"]
    # each defined overload must have been exercised in every flavour that can run it (4 for batch/avx, 2 for avx512), in all chunks
    short = []

    def nchunks(n):  # mirrors run_wrappers() in the harness
        chunk = (n + 3) // 4 if n <= 4000 else 25000
        return (n + chunk - 1) // chunk

    for e in entries:
        if not e["defined"]:
            continue
        k = "ov:%s:%s" % (e["family"], e["id"])
        runs = 1 if e["lanes"] == 8 else 2  # 512 overloads only exist in the 512 flavours
        want = (nchunks(n_prod) + nchunks(n_asan)) * runs
        if not any(key.startswith("C17:%s:%s:" % (e["family"], e["id"])) for key in res.violations) and res.counters.get(k, 0) != want:
            short.append("%s: %d chunk executions, expected %d" % (k, res.counters.get(k, 0), want))
    if short:
        res.inconclusive.append("overloads exercised less often than planned: " + "; ".join(short[:10]))
    grid = res.counters.get("par:grid_cases", 0) // 2
    ran = res.counters.get("par:parcpy", 0) + res.counters.get("par:parSetZero", 0)
    if ran != 2 * grid and not any(k.startswith("C17:par:") for k in res.violations):
        res.inconclusive.append("parcpy/parSetZero grid: %d cases executed, %d planned" % (ran, 2 * grid))

    fam = {}
    for e in entries:
        f = fam.setdefault(e["family"], {"declared": 0, "defined": 0, "exercised": 0, "trials": 0})
        f["declared"] += 1
        f["defined"] += 1 if e["defined"] else 0
        f["exercised"] += 1 if res.counters.get("ov:%s:%s" % (e["family"], e["id"]), 0) else 0
    for f in fam:
        fam[f]["trials"] = res.counters.get("trials:" + f, 0)
    extra = {
        "overload_table": {"file": "tools/overloads_c17.json", "overloads": len(entries), "definition_files": deffiles,
                           "consistent_with_current_header": True},
        "families": fam,
        "declared_but_undefined_overloads_not_executable": undefined,
        "excluded_pure_register_kernels": [x["signature"] for x in excluded],
        "declaration_oddities": [{"signature": e["signature"], "oddity": o} for e in entries for o in e["oddities"]],
        "trials_per_overload_per_run": {"prod": n_prod, "prod512": n_prod, "asan": n_asan, "asan512": n_asan},
    }
    return vfw.finalize(prop, tier, seed, res, t0, RULE, assumptions=ASSUME, required=required, extra_cov=extra,
                        replay_info={"harness": "wrappers17.cpp",
                                     "how": "./check C17 --replay <file>   (single overload: <binary> --part wrappers --only <family>:<id> --seed <seed> --nofork)"})


def asan_results(tier, seed, work, trials):
    """sanitizer-only slice for C18: asan + asan512 builds of the same monitor (jobs to build, runs to execute)"""
    try:
        entries, excluded, deffiles = gen_overloads.parse_repo(vfw.REPO)
    except gen_overloads.Unfit as ex:
        raise vfw.Inconclusive("C17 overload table: %s" % ex)
    diffs = gen_overloads.compare(gen_overloads.table_of(entries, excluded), gen_overloads.load_table())
    if diffs:
        raise vfw.Inconclusive("C17 overload table differs from the header: " + "; ".join(diffs[:5]))
    thunks = gen_overloads.emit(entries, work.path("gen17"))
    srcs = [H("wrappers17.cpp")] + thunks
    flavours = ["asan", "asan512"] if vfw.have_avx512() else ["asan"]
    jobs = [{"name": "w17-" + fl, "flavour": fl, "srcs": srcs, "libsrcs": ["goldilocks_base_field.cpp"]} for fl in flavours]
    runs = [("w17-" + fl, "C17", seed + 1000003 + i, ["--part", "wrappers", "--trials", str(trials)], "w17-" + fl, NCPU, None) for i, fl in enumerate(flavours)]
    runs.append(("w17-asan", "C17", seed + 7, ["--part", "par"], "w17-par-asan", 4, {"OMP_THREAD_LIMIT": "1024"}))
    return jobs, runs


def register(reg):
    reg["C17"] = check_c17
