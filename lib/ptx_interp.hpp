// Concrete interpreter for the PTX subset that occurs in the inline asm of /repo/src/gl64_t.cuh.
//
// tools/ptx_rewrite.py turns every   asm("template" : outs : ins);   of the header into
//     ptx::exec("template", { ptx::out<'+','l'>(lvalue), ... }, { ptx::in<'r'>(expr), ... });
// and this file executes the *unchanged template text* on the host.
//
// Model (PTX ISA, "Extended-Precision Integer Arithmetic Instructions", "setp", "selp", "mov"):
//   * every %N operand is its own virtual register (what nvcc emits: one fresh PTX virtual register
//     per asm operand).  '+' operands are loaded on entry, '=' operands start undefined, all output
//     operands are stored back on exit; reading an undefined register or leaving a '=' operand
//     unwritten is a fatal error of the run (never silently tolerated).
//   * one condition-code register CC.CF per thread.  It is written only by instructions carrying
//     the .cc suffix, read only by addc/subc/madc, and it persists across asm statements (the
//     header relies on this in dot_product).  add.cc/addc.cc/mad*.cc write the carry-out,
//     sub.cc/subc.cc write the borrow-out; subc computes a - (b + CF).
//   * named registers (`.reg .pred %top;`) live in `{` ... `}` scopes that are opened and closed by
//     separate asm statements and therefore persist across exec() calls until the closing `}`.
//   * an optional guard `@%p` / `@!%p` in front of ANY instruction.
//   * operand width must equal the instruction type width ('r' = 32 bit, 'l' = 64 bit), as ptxas
//     would demand; a mismatch is fatal.
// Anything outside the implemented subset (unknown opcode, modifier, operand form, constraint) calls
// ptx::fatal(): the message goes to stderr and to the hook the harness installs, the process exits
// with code 2 (harness failure -> the check is INCONCLUSIVE, never green and never a violation).
#pragma once
#include <cstdint>
#include <cstdio>
#include <cstdlib>
#include <cstring>
#include <cstdarg>
#include <string>
#include <vector>
#include <type_traits>
#include <initializer_list>
#include <unistd.h>

namespace ptx {

typedef unsigned __int128 u128_t;
typedef __int128 s128_t;

// ------------------------------------------------------------------------------------------ errors
typedef void (*fatal_hook_t)(const char *msg);
static fatal_hook_t &fatal_hook()
{
    static fatal_hook_t h = nullptr;
    return h;
}
[[noreturn]] static inline void fatal(const char *fmt, ...)
{
    char buf[1024];
    va_list ap;
    va_start(ap, fmt);
    vsnprintf(buf, sizeof buf, fmt, ap);
    va_end(ap);
    fprintf(stderr, "PTX-INTERP-FATAL: %s\n", buf);
    fflush(NULL);
    if (fatal_hook()) fatal_hook()(buf);
    _exit(2);
}
struct Trap
{
    const char *stmt;
};

// ------------------------------------------------------------------------------------------ operand API
struct Out
{
    char rw;   // '+' read-write, '=' write-only
    char cls;  // 'r' 32 bit, 'l' 64 bit, 'h' 16 bit
    void *p;
};
struct In
{
    char cls;
    uint64_t v;
};
template <char C> struct width_of;
template <> struct width_of<'h'> { static const unsigned bits = 16; };
template <> struct width_of<'r'> { static const unsigned bits = 32; };
template <> struct width_of<'l'> { static const unsigned bits = 64; };

template <char RW, char C, class T> static inline Out out(T &lv)
{
    static_assert(RW == '+' || RW == '=', "output constraint must start with '+' or '='");
    static_assert(sizeof(T) * 8 == width_of<C>::bits, "asm output operand size does not match its constraint letter");
    static_assert(std::is_integral<T>::value, "asm output operand must be an integer lvalue");
    Out o = {RW, C, (void *)&lv};
    return o;
}
template <char C, class T> static inline In in(T v)
{
    static_assert(sizeof(T) * 8 == width_of<C>::bits, "asm input operand size does not match its constraint letter");
    static_assert(std::is_integral<T>::value, "asm input operand must be an integer value");
    typedef typename std::make_unsigned<T>::type U;
    In i = {C, (uint64_t)(U)v};
    return i;
}

// ------------------------------------------------------------------------------------------ program form
enum Opc : uint8_t
{
    O_ADD, O_ADDC, O_SUB, O_SUBC, O_MUL_LO, O_MUL_HI, O_MUL_WIDE, O_MAD_LO, O_MAD_HI, O_MADC_LO, O_MADC_HI,
    O_SETP, O_SELP, O_MOV, O_TRAP, O_SCOPE_OPEN, O_SCOPE_CLOSE, O_REGDECL
};
enum Cmp : uint8_t { C_EQ, C_NE, C_LT, C_LE, C_GT, C_GE };
enum AtomKind : uint8_t { A_NONE, A_PH, A_NAMED, A_IMM };
enum RegType : uint8_t { T_PRED, T_B16, T_B32, T_B64 };

struct Atom
{
    AtomKind kind = A_NONE;
    int idx = 0;        // placeholder number or interned name id
    uint64_t imm = 0;
};
struct Opd
{
    bool vec = false;   // {a, b}
    Atom a[2];
};
struct Instr
{
    Opc opc;
    bool cc = false;        // writes CC.CF
    bool sgn = false;       // .s32 / .s64
    uint8_t width = 0;      // type width in bits
    Cmp cmp = C_EQ;
    bool guarded = false, guard_neg = false;
    int guard_name = 0;
    int nops = 0;
    Opd ops[4];
    // O_REGDECL
    RegType rtype = T_PRED;
    std::vector<int> decl_names;
    std::string text;
};
struct Program
{
    const char *tmpl;
    std::vector<Instr> ins;
    int max_ph = -1;
};

static inline std::vector<std::string> &name_table()
{
    static thread_local std::vector<std::string> t;
    return t;
}
static inline int intern(const std::string &s)
{
    auto &t = name_table();
    for (size_t i = 0; i < t.size(); i++)
        if (t[i] == s) return (int)i;
    t.push_back(s);
    return (int)t.size() - 1;
}

// ------------------------------------------------------------------------------------------ parser
struct Parser
{
    const char *tmpl;
    const char *s;
    Parser(const char *t) : tmpl(t), s(t) {}
    void ws()
    {
        for (;;)
        {
            while (*s == ' ' || *s == '\t' || *s == '\n' || *s == '\r') s++;
            if (s[0] == '/' && s[1] == '/') { while (*s && *s != '\n') s++; continue; }
            if (s[0] == '/' && s[1] == '*') { s += 2; while (*s && !(s[0] == '*' && s[1] == '/')) s++; if (*s) s += 2; continue; }
            break;
        }
    }
    static bool idch(char c) { return (c >= 'a' && c <= 'z') || (c >= 'A' && c <= 'Z') || (c >= '0' && c <= '9') || c == '_' || c == '$'; }
    Atom atom()
    {
        ws();
        Atom a;
        if (*s == '%')
        {
            s++;
            if (*s == '%') s++; // "%%name" spelling of a literal percent sign
            if (*s >= '0' && *s <= '9')
            {
                int n = 0;
                while (*s >= '0' && *s <= '9') n = n * 10 + (*s++ - '0');
                if (idch(*s)) fatal("malformed placeholder in asm template \"%s\"", tmpl);
                a.kind = A_PH; a.idx = n;
                return a;
            }
            std::string nm = "%";
            while (idch(*s)) nm += *s++;
            if (nm.size() == 1) fatal("malformed register name in asm template \"%s\"", tmpl);
            a.kind = A_NAMED; a.idx = intern(nm);
            return a;
        }
        bool neg = false;
        if (*s == '-') { neg = true; s++; }
        if (*s >= '0' && *s <= '9')
        {
            char *e;
            unsigned long long v = strtoull(s, &e, 0);
            s = e;
            if (*s == 'U' || *s == 'u') s++;
            if (idch(*s) || *s == '.') fatal("unsupported immediate in asm template \"%s\"", tmpl);
            a.kind = A_IMM; a.imm = neg ? (uint64_t)0 - v : v;
            return a;
        }
        fatal("unsupported operand at \"%.20s\" in asm template \"%s\"", s, tmpl);
    }
    Opd operand()
    {
        ws();
        Opd o;
        if (*s == '{')
        {
            s++;
            o.vec = true;
            o.a[0] = atom();
            ws();
            if (*s != ',') fatal("only two-element vector operands are supported: \"%s\"", tmpl);
            s++;
            o.a[1] = atom();
            ws();
            if (*s != '}') fatal("only two-element vector operands are supported: \"%s\"", tmpl);
            s++;
            return o;
        }
        o.a[0] = atom();
        return o;
    }
    static bool take(std::vector<std::string> &m, const char *w)
    {
        for (size_t i = 0; i < m.size(); i++)
            if (m[i] == w) { m.erase(m.begin() + i); return true; }
        return false;
    }
    // type suffix -> width/sign; returns false if no type present
    static bool take_type(std::vector<std::string> &m, Instr &in, bool &is_pred)
    {
        static const struct { const char *n; uint8_t w; bool sg; } T[] = {
            {"u16", 16, false}, {"s16", 16, true}, {"b16", 16, false}, {"u32", 32, false}, {"s32", 32, true}, {"b32", 32, false},
            {"u64", 64, false}, {"s64", 64, true}, {"b64", 64, false}};
        is_pred = false;
        for (auto &t : T)
            if (take(m, t.n)) { in.width = t.w; in.sgn = t.sg; return true; }
        if (take(m, "pred")) { is_pred = true; return true; }
        return false;
    }
    Program *parse()
    {
        Program *P = new Program;
        P->tmpl = tmpl;
        for (;;)
        {
            ws();
            if (!*s) break;
            Instr in;
            if (*s == '{') { s++; in.opc = O_SCOPE_OPEN; in.text = "{"; P->ins.push_back(in); continue; }
            if (*s == '}') { s++; in.opc = O_SCOPE_CLOSE; in.text = "}"; P->ins.push_back(in); continue; }
            if (*s == ';') { s++; continue; }
            const char *st = s;
            if (*s == '@')
            {
                s++;
                ws();
                if (*s == '!') { in.guard_neg = true; s++; }
                Atom g = atom();
                if (g.kind != A_NAMED) fatal("guard must be a named predicate register: \"%s\"", tmpl);
                in.guarded = true; in.guard_name = g.idx;
                ws();
            }
            // opcode with dot suffixes (also ".reg" directive; ".reg.pred" and ".reg .pred" are both accepted)
            std::string opw;
            while (idch(*s) || *s == '.') opw += *s++;
            if (opw.empty()) fatal("cannot parse instruction at \"%.24s\" in asm template \"%s\"", s, tmpl);
            std::vector<std::string> m;
            {
                size_t p = 0;
                while (p <= opw.size())
                {
                    size_t q = opw.find('.', p);
                    if (q == std::string::npos) q = opw.size();
                    m.push_back(opw.substr(p, q - p));
                    p = q + 1;
                }
            }
            bool is_pred = false;
            if (m[0].empty() && m.size() >= 2 && m[1] == "reg")
            {
                if (in.guarded) fatal("guard on a directive: \"%s\"", tmpl);
                m.erase(m.begin(), m.begin() + 2);
                if (m.empty())
                {
                    ws();
                    if (*s != '.') fatal(".reg without a type: \"%s\"", tmpl);
                    s++;
                    std::string ty;
                    while (idch(*s)) ty += *s++;
                    m.push_back(ty);
                }
                in.opc = O_REGDECL;
                if (!take_type(m, in, is_pred) || !m.empty()) fatal("unsupported .reg type in \"%s\"", tmpl);
                in.rtype = is_pred ? T_PRED : in.width == 16 ? T_B16 : in.width == 32 ? T_B32 : T_B64;
                for (;;)
                {
                    Atom a = atom();
                    if (a.kind != A_NAMED) fatal(".reg needs register names: \"%s\"", tmpl);
                    ws();
                    if (*s == '<') fatal("parameterised register names are not supported: \"%s\"", tmpl);
                    in.decl_names.push_back(a.idx);
                    if (*s == ',') { s++; continue; }
                    break;
                }
            }
            else
            {
                std::string base = m[0];
                m.erase(m.begin());
                if (base.empty()) fatal("unknown directive \"%s\" in asm template \"%s\"", opw.c_str(), tmpl);
                if (base == "add" || base == "addc" || base == "sub" || base == "subc")
                {
                    in.opc = base == "add" ? O_ADD : base == "addc" ? O_ADDC : base == "sub" ? O_SUB : O_SUBC;
                    in.cc = take(m, "cc");
                    in.nops = 3;
                }
                else if (base == "mul")
                {
                    if (take(m, "lo")) in.opc = O_MUL_LO;
                    else if (take(m, "hi")) in.opc = O_MUL_HI;
                    else if (take(m, "wide")) in.opc = O_MUL_WIDE;
                    else fatal("mul needs .lo/.hi/.wide: \"%s\"", tmpl);
                    in.nops = 3;
                }
                else if (base == "mad" || base == "madc")
                {
                    bool c = base == "madc";
                    if (take(m, "lo")) in.opc = c ? O_MADC_LO : O_MAD_LO;
                    else if (take(m, "hi")) in.opc = c ? O_MADC_HI : O_MAD_HI;
                    else fatal("unsupported opcode \"%s\" (mad/madc need .lo/.hi) in \"%s\"", opw.c_str(), tmpl);
                    in.cc = take(m, "cc");
                    in.nops = 4;
                }
                else if (base == "setp")
                {
                    in.opc = O_SETP;
                    // unsigned spellings lo/ls/hi/hs are the same comparisons on an unsigned type
                    if (take(m, "eq")) in.cmp = C_EQ;
                    else if (take(m, "ne")) in.cmp = C_NE;
                    else if (take(m, "lt") || take(m, "lo")) in.cmp = C_LT;
                    else if (take(m, "le") || take(m, "ls")) in.cmp = C_LE;
                    else if (take(m, "gt") || take(m, "hi")) in.cmp = C_GT;
                    else if (take(m, "ge") || take(m, "hs")) in.cmp = C_GE;
                    else fatal("unsupported setp comparison in \"%s\"", tmpl);
                    in.nops = 3;
                }
                else if (base == "selp") { in.opc = O_SELP; in.nops = 4; }
                else if (base == "mov") { in.opc = O_MOV; in.nops = 2; }
                else if (base == "trap") { in.opc = O_TRAP; in.nops = 0; }
                else fatal("unknown PTX opcode \"%s\" in asm template \"%s\"", opw.c_str(), tmpl);

                if (in.opc != O_TRAP)
                {
                    if (!take_type(m, in, is_pred) || is_pred) fatal("missing/unsupported type in \"%s\" of \"%s\"", opw.c_str(), tmpl);
                }
                if (!m.empty()) fatal("unsupported modifier \".%s\" in \"%s\" of \"%s\"", m[0].c_str(), opw.c_str(), tmpl);
                if (in.cc && in.width != 32 && in.width != 64) fatal(".cc needs a 32/64-bit type: \"%s\"", tmpl);
                if ((in.opc == O_ADDC || in.opc == O_SUBC || in.opc == O_MADC_LO || in.opc == O_MADC_HI) && in.width != 32 && in.width != 64)
                    fatal("carry-in needs a 32/64-bit type: \"%s\"", tmpl);
                if (in.opc == O_MUL_WIDE && in.width == 64) fatal("mul.wide on a 64-bit type: \"%s\"", tmpl);
                for (int k = 0; k < in.nops; k++)
                {
                    in.ops[k] = operand();
                    ws();
                    if (k + 1 < in.nops)
                    {
                        if (*s != ',') fatal("too few operands in \"%s\"", tmpl);
                        s++;
                    }
                }
                for (int k = 0; k < in.nops; k++)
                {
                    if (in.ops[k].vec && in.opc != O_MOV) fatal("vector operand outside mov: \"%s\"", tmpl);
                    for (int e = 0; e < (in.ops[k].vec ? 2 : 1); e++)
                        if (in.ops[k].a[e].kind == A_PH && in.ops[k].a[e].idx > P->max_ph) P->max_ph = in.ops[k].a[e].idx;
                }
                if (in.opc == O_MOV && in.ops[0].vec && in.ops[1].vec) fatal("mov with two vector operands: \"%s\"", tmpl);
                if (in.opc == O_MOV && (in.ops[0].vec || in.ops[1].vec) && in.width != 64) fatal("vector mov is implemented for .b64 only: \"%s\"", tmpl);
            }
            ws();
            if (*s != ';') fatal("missing ';' after \"%.*s\" in asm template \"%s\"", (int)(s - st), st, tmpl);
            in.text.assign(st, s - st);
            s++;
            P->ins.push_back(in);
        }
        return P;
    }
};

// ------------------------------------------------------------------------------------------ machine state
struct Named
{
    int name;
    RegType type;
    uint64_t v;
    bool defined;
};
struct Trace
{
    // per-operation path signature: outcome of every .cc instruction (1 = carry/borrow out) and of every guard
    // (1 = guarded instruction executed), in execution order, most recent in bit 0
    uint64_t cfbits = 0, gbits = 0;
    uint32_t ncf = 0, ng = 0;
};
struct Totals
{
    uint64_t statements = 0, instructions = 0, cc_set = 0, cc_clear = 0, guard_taken = 0, guard_skipped = 0, traps = 0,
             scopes_opened = 0, scopes_closed = 0, programs_parsed = 0;
};
struct Machine
{
    bool cf = false;
    std::vector<Named> named;
    std::vector<size_t> marks;
    Trace tr;
    Totals tot;
    // program cache keyed by the address of the template literal
    static const size_t NC = 1024;
    const char *ckey[NC];
    Program *cval[NC];
    Machine() { memset(ckey, 0, sizeof ckey); memset(cval, 0, sizeof cval); }
};
static inline Machine &machine()
{
    static thread_local Machine m;
    return m;
}
static inline void trace_reset() { machine().tr = Trace(); }
static inline const Trace &trace() { return machine().tr; }
static inline const Totals &totals() { return machine().tot; }
static inline bool carry_flag() { return machine().cf; }
static inline size_t open_scopes() { return machine().marks.size(); }
static inline size_t live_named_registers() { return machine().named.size(); }

__attribute__((noinline)) static Program *lookup(const char *tmpl)
{
    Machine &M = machine();
    size_t h = ((uintptr_t)tmpl >> 2) * 0x9E3779B97F4A7C15ULL >> 54;
    for (size_t k = 0; k < Machine::NC; k++)
    {
        size_t i = (h + k) & (Machine::NC - 1);
        if (M.ckey[i] == tmpl) return M.cval[i];
        if (!M.ckey[i])
        {
            Parser ps(tmpl);
            M.ckey[i] = tmpl;
            M.cval[i] = ps.parse();
            M.tot.programs_parsed++;
            return M.cval[i];
        }
    }
    fatal("program cache full");
}
// parse only (used to make sure that every template of the header is inside the implemented subset,
// including statements that the workloads never execute)
static inline size_t validate(const char *tmpl) { return lookup(tmpl)->ins.size(); }

// ------------------------------------------------------------------------------------------ execution
struct Frame
{
    static const int MAXP = 16;
    uint64_t v[MAXP];
    uint8_t width[MAXP];
    bool defined[MAXP], writable[MAXP];
    int n = 0;
};
static inline uint64_t maskw(unsigned w) { return w >= 64 ? ~0ULL : ((1ULL << w) - 1); }

static inline Named *find_named(Machine &M, int name)
{
    for (size_t i = M.named.size(); i-- > 0;)
        if (M.named[i].name == name) return &M.named[i];
    return nullptr;
}
static inline unsigned type_bits(RegType t) { return t == T_PRED ? 1 : t == T_B16 ? 16 : t == T_B32 ? 32 : 64; }

// read a scalar source of width w
static inline uint64_t rd(Machine &M, Frame &F, const Instr &in, const Atom &a, unsigned w)
{
    switch (a.kind)
    {
    case A_IMM: return a.imm & maskw(w);
    case A_PH:
        if (a.idx >= F.n) fatal("placeholder %%%d has no operand in \"%s\"", a.idx, in.text.c_str());
        if (F.width[a.idx] != w) fatal("operand %%%d is %u bits wide but \"%s\" needs %u bits", a.idx, F.width[a.idx], in.text.c_str(), w);
        if (!F.defined[a.idx]) fatal("write-only operand %%%d is read before it is written in \"%s\"", a.idx, in.text.c_str());
        return F.v[a.idx];
    case A_NAMED:
    {
        Named *r = find_named(M, a.idx);
        if (!r) fatal("register %s is not declared in any open scope (\"%s\")", name_table()[a.idx].c_str(), in.text.c_str());
        if (r->type == T_PRED || type_bits(r->type) != w) fatal("register %s has the wrong type for \"%s\"", name_table()[a.idx].c_str(), in.text.c_str());
        if (!r->defined) fatal("register %s is read before it is written (\"%s\")", name_table()[a.idx].c_str(), in.text.c_str());
        return r->v;
    }
    default: fatal("missing operand in \"%s\"", in.text.c_str());
    }
}
static inline void wr(Machine &M, Frame &F, const Instr &in, const Atom &a, unsigned w, uint64_t val)
{
    val &= maskw(w);
    switch (a.kind)
    {
    case A_PH:
        if (a.idx >= F.n) fatal("placeholder %%%d has no operand in \"%s\"", a.idx, in.text.c_str());
        if (F.width[a.idx] != w) fatal("operand %%%d is %u bits wide but \"%s\" writes %u bits", a.idx, F.width[a.idx], in.text.c_str(), w);
        if (!F.writable[a.idx]) fatal("input operand %%%d is written by \"%s\"", a.idx, in.text.c_str());
        F.v[a.idx] = val; F.defined[a.idx] = true;
        return;
    case A_NAMED:
    {
        Named *r = find_named(M, a.idx);
        if (!r) fatal("register %s is not declared in any open scope (\"%s\")", name_table()[a.idx].c_str(), in.text.c_str());
        if (r->type == T_PRED || type_bits(r->type) != w) fatal("register %s has the wrong type for \"%s\"", name_table()[a.idx].c_str(), in.text.c_str());
        r->v = val; r->defined = true;
        return;
    }
    default: fatal("destination of \"%s\" is not a register", in.text.c_str());
    }
}
static inline bool rd_pred(Machine &M, const Instr &in, int name)
{
    Named *r = find_named(M, name);
    if (!r) fatal("predicate %s is not declared in any open scope (\"%s\")", name_table()[name].c_str(), in.text.c_str());
    if (r->type != T_PRED) fatal("register %s is not a predicate (\"%s\")", name_table()[name].c_str(), in.text.c_str());
    if (!r->defined) fatal("predicate %s is read before it is written (\"%s\")", name_table()[name].c_str(), in.text.c_str());
    return r->v != 0;
}
static inline void wr_pred(Machine &M, const Instr &in, const Atom &a, bool v)
{
    if (a.kind != A_NAMED) fatal("predicate destination must be a named register (\"%s\")", in.text.c_str());
    Named *r = find_named(M, a.idx);
    if (!r) fatal("predicate %s is not declared in any open scope (\"%s\")", name_table()[a.idx].c_str(), in.text.c_str());
    if (r->type != T_PRED) fatal("register %s is not a predicate (\"%s\")", name_table()[a.idx].c_str(), in.text.c_str());
    r->v = v; r->defined = true;
}
static inline void set_cf(Machine &M, bool c)
{
    M.cf = c;
    M.tr.cfbits = (M.tr.cfbits << 1) | (c ? 1 : 0);
    M.tr.ncf++;
    if (c) M.tot.cc_set++; else M.tot.cc_clear++;
}
static inline const Atom &sc(const Instr &in, int k)
{
    if (in.ops[k].vec) fatal("unexpected vector operand in \"%s\"", in.text.c_str());
    return in.ops[k].a[0];
}

static inline void step(Machine &M, Frame &F, const Instr &in, const char *tmpl)
{
    M.tot.instructions++;
    switch (in.opc)
    {
    case O_SCOPE_OPEN: M.marks.push_back(M.named.size()); M.tot.scopes_opened++; return;
    case O_SCOPE_CLOSE:
        if (M.marks.empty()) fatal("'}' without an open scope (\"%s\")", tmpl);
        M.named.resize(M.marks.back());
        M.marks.pop_back();
        M.tot.scopes_closed++;
        return;
    case O_REGDECL:
        for (int nm : in.decl_names)
        {
            size_t lo = M.marks.empty() ? 0 : M.marks.back();
            for (size_t i = lo; i < M.named.size(); i++)
                if (M.named[i].name == nm) fatal("register %s declared twice in one scope (\"%s\")", name_table()[nm].c_str(), tmpl);
            Named r = {nm, in.rtype, 0, false};
            M.named.push_back(r);
        }
        return;
    default: break;
    }
    if (in.guarded)
    {
        bool g = rd_pred(M, in, in.guard_name);
        if (in.guard_neg) g = !g;
        M.tr.gbits = (M.tr.gbits << 1) | (g ? 1 : 0);
        M.tr.ng++;
        if (g) M.tot.guard_taken++; else { M.tot.guard_skipped++; return; }
    }
    const unsigned w = in.width;
    const uint64_t mk = maskw(w);
    switch (in.opc)
    {
    case O_ADD: case O_ADDC:
    {
        uint64_t a = rd(M, F, in, sc(in, 1), w), b = rd(M, F, in, sc(in, 2), w);
        u128_t r = (u128_t)a + b + ((in.opc == O_ADDC && M.cf) ? 1 : 0);
        wr(M, F, in, sc(in, 0), w, (uint64_t)r);
        if (in.cc) set_cf(M, (r >> w) != 0);
        return;
    }
    case O_SUB: case O_SUBC:
    {
        uint64_t a = rd(M, F, in, sc(in, 1), w), b = rd(M, F, in, sc(in, 2), w);
        u128_t sub = (u128_t)b + ((in.opc == O_SUBC && M.cf) ? 1 : 0);
        wr(M, F, in, sc(in, 0), w, (uint64_t)((u128_t)a - sub));
        if (in.cc) set_cf(M, (u128_t)a < sub);
        return;
    }
    case O_MUL_LO: case O_MUL_HI: case O_MUL_WIDE: case O_MAD_LO: case O_MAD_HI: case O_MADC_LO: case O_MADC_HI:
    {
        uint64_t a = rd(M, F, in, sc(in, 1), w), b = rd(M, F, in, sc(in, 2), w);
        u128_t prod;
        if (in.sgn)
        {
            s128_t sa = w == 64 ? (s128_t)(int64_t)a : w == 32 ? (s128_t)(int32_t)a : (s128_t)(int16_t)a;
            s128_t sb = w == 64 ? (s128_t)(int64_t)b : w == 32 ? (s128_t)(int32_t)b : (s128_t)(int16_t)b;
            prod = (u128_t)(sa * sb);
        }
        else prod = (u128_t)a * b;
        if (in.opc == O_MUL_WIDE) { wr(M, F, in, sc(in, 0), 2 * w, (uint64_t)prod); return; }
        bool hi = in.opc == O_MUL_HI || in.opc == O_MAD_HI || in.opc == O_MADC_HI;
        uint64_t part = (uint64_t)(hi ? (prod >> w) : prod) & mk;
        if (in.opc == O_MUL_LO || in.opc == O_MUL_HI) { wr(M, F, in, sc(in, 0), w, part); return; }
        uint64_t c = rd(M, F, in, sc(in, 3), w);
        bool cin = (in.opc == O_MADC_LO || in.opc == O_MADC_HI) && M.cf;
        u128_t r = (u128_t)part + c + (cin ? 1 : 0);
        wr(M, F, in, sc(in, 0), w, (uint64_t)r);
        if (in.cc) set_cf(M, (r >> w) != 0);
        return;
    }
    case O_SETP:
    {
        uint64_t a = rd(M, F, in, sc(in, 1), w), b = rd(M, F, in, sc(in, 2), w);
        bool r;
        if (in.sgn)
        {
            int64_t sa = w == 64 ? (int64_t)a : w == 32 ? (int64_t)(int32_t)a : (int64_t)(int16_t)a;
            int64_t sb = w == 64 ? (int64_t)b : w == 32 ? (int64_t)(int32_t)b : (int64_t)(int16_t)b;
            r = in.cmp == C_EQ ? sa == sb : in.cmp == C_NE ? sa != sb : in.cmp == C_LT ? sa < sb : in.cmp == C_LE ? sa <= sb : in.cmp == C_GT ? sa > sb : sa >= sb;
        }
        else
            r = in.cmp == C_EQ ? a == b : in.cmp == C_NE ? a != b : in.cmp == C_LT ? a < b : in.cmp == C_LE ? a <= b : in.cmp == C_GT ? a > b : a >= b;
        wr_pred(M, in, sc(in, 0), r);
        return;
    }
    case O_SELP:
    {
        uint64_t a = rd(M, F, in, sc(in, 1), w), b = rd(M, F, in, sc(in, 2), w);
        const Atom &p = sc(in, 3);
        if (p.kind != A_NAMED) fatal("selp needs a predicate register as last operand (\"%s\")", in.text.c_str());
        wr(M, F, in, sc(in, 0), w, rd_pred(M, in, p.idx) ? a : b);
        return;
    }
    case O_MOV:
        if (in.ops[1].vec)
        {   // pack: d = {lo, hi}
            uint64_t lo = rd(M, F, in, in.ops[1].a[0], 32), hi = rd(M, F, in, in.ops[1].a[1], 32);
            wr(M, F, in, sc(in, 0), 64, lo | (hi << 32));
        }
        else if (in.ops[0].vec)
        {   // unpack: {lo, hi} = a
            uint64_t a = rd(M, F, in, sc(in, 1), 64);
            wr(M, F, in, in.ops[0].a[0], 32, a & 0xFFFFFFFFULL);
            wr(M, F, in, in.ops[0].a[1], 32, a >> 32);
        }
        else
            wr(M, F, in, sc(in, 0), w, rd(M, F, in, sc(in, 1), w));
        return;
    case O_TRAP:
        M.tot.traps++;
        throw Trap{tmpl};
    default: fatal("internal: opcode not dispatched (\"%s\")", in.text.c_str());
    }
}

__attribute__((noinline)) static void exec(const char *tmpl, std::initializer_list<Out> outs = {}, std::initializer_list<In> ins = {})
{
    Machine &M = machine();
    const Program *P = lookup(tmpl);
    Frame F;
    if (outs.size() + ins.size() > (size_t)Frame::MAXP) fatal("too many asm operands in \"%s\"", tmpl);
    for (const Out &o : outs)
    {
        unsigned w = o.cls == 'r' ? 32 : o.cls == 'l' ? 64 : o.cls == 'h' ? 16 : 0;
        if (!w) fatal("unsupported constraint letter '%c' in \"%s\"", o.cls, tmpl);
        F.width[F.n] = (uint8_t)w;
        F.writable[F.n] = true;
        if (o.rw == '+')
        {
            F.v[F.n] = w == 64 ? *(uint64_t *)o.p : w == 32 ? *(uint32_t *)o.p : *(uint16_t *)o.p;
            F.defined[F.n] = true;
        }
        else if (o.rw == '=') { F.v[F.n] = 0xBAD0BAD0BAD0BAD0ULL & maskw(w); F.defined[F.n] = false; }
        else fatal("unsupported output modifier '%c' in \"%s\"", o.rw, tmpl);
        F.n++;
    }
    for (const In &i : ins)
    {
        unsigned w = i.cls == 'r' ? 32 : i.cls == 'l' ? 64 : i.cls == 'h' ? 16 : 0;
        if (!w) fatal("unsupported constraint letter '%c' in \"%s\"", i.cls, tmpl);
        F.width[F.n] = (uint8_t)w;
        F.writable[F.n] = false;
        F.v[F.n] = i.v & maskw(w);
        F.defined[F.n] = true;
        F.n++;
    }
    if (P->max_ph >= F.n) fatal("asm template \"%s\" uses %%%d but has only %d operands", tmpl, P->max_ph, F.n);
    M.tot.statements++;
    for (const Instr &in : P->ins) step(M, F, in, tmpl);
    int k = 0;
    for (const Out &o : outs)
    {
        if (!F.defined[k]) fatal("write-only output operand %%%d is never written by \"%s\"", k, tmpl);
        if (F.width[k] == 64) *(uint64_t *)o.p = F.v[k];
        else if (F.width[k] == 32) *(uint32_t *)o.p = (uint32_t)F.v[k];
        else *(uint16_t *)o.p = (uint16_t)F.v[k];
        k++;
    }
}

// ------------------------------------------------------------------------------------------ self-test
// Hand-computed cases for every implemented opcode; returns the number of failed expectations.
__attribute__((noinline, optimize("O0"))) static int selftest(FILE *log = stderr)
{
    int bad = 0;
    auto exp32 = [&](const char *what, uint32_t got, uint32_t want) {
        if (got != want) { bad++; fprintf(log, "ptx selftest FAILED: %s: got 0x%08x want 0x%08x\n", what, got, want); }
    };
    auto exp64 = [&](const char *what, uint64_t got, uint64_t want) {
        if (got != want) { bad++; fprintf(log, "ptx selftest FAILED: %s: got 0x%016llx want 0x%016llx\n", what, (unsigned long long)got, (unsigned long long)want); }
    };
    uint32_t a, b, c, d, e;
    uint64_t x, y, z;
    // ---- add.cc / addc (u32): 0xFFFFFFFF + 1 = 0 carry 1; addc 0+0+CF = 1
    a = 0xFFFFFFFFu; b = 1;
    exec("add.cc.u32 %0, %2, %3; addc.u32 %1, 0, 0;", {out<'=', 'r'>(c), out<'=', 'r'>(d)}, {in<'r'>(a), in<'r'>(b)});
    exp32("add.cc.u32 0xffffffff+1", c, 0); exp32("addc.u32 0,0 after carry", d, 1);
    exp32("CF after add.cc carry (addc without .cc keeps it)", carry_flag(), 1);
    // no carry: 0x7FFFFFFF + 0x80000000 = 0xFFFFFFFF carry 0
    a = 0x7FFFFFFFu; b = 0x80000000u;
    exec("add.cc.u32 %0, %2, %3; addc.u32 %1, 0, 0;", {out<'=', 'r'>(c), out<'=', 'r'>(d)}, {in<'r'>(a), in<'r'>(b)});
    exp32("add.cc.u32 no carry", c, 0xFFFFFFFFu); exp32("addc.u32 no carry", d, 0);
    // addc.cc chain: (0xFFFFFFFF,0xFFFFFFFF) + (1,0) = (0,0) carry 1
    a = 0xFFFFFFFFu; b = 0xFFFFFFFFu;
    exec("add.cc.u32 %0, %0, 1; addc.cc.u32 %1, %1, 0; addc.u32 %2, 0, 0;", {out<'+', 'r'>(a), out<'+', 'r'>(b), out<'=', 'r'>(c)});
    exp32("addc chain lo", a, 0); exp32("addc chain hi", b, 0); exp32("addc chain carry", c, 1);
    // addc.cc: 0xFFFFFFFF + 0xFFFFFFFF + 1 = 0x1_FFFFFFFF
    a = 0xFFFFFFFFu; b = 0xFFFFFFFFu; c = 0xFFFFFFFFu;
    exec("add.cc.u32 %0, %0, 1; addc.cc.u32 %1, %1, %2; addc.u32 %3, 0, 0;", {out<'+', 'r'>(a), out<'+', 'r'>(b), out<'+', 'r'>(c), out<'=', 'r'>(d)});
    exp32("addc.cc f+f+1", b, 0xFFFFFFFFu); exp32("addc.cc f+f+1 carry", d, 1);
    // CF persists across statements
    a = 0xFFFFFFFFu;
    exec("add.cc.u32 %0, %0, %0;", {out<'+', 'r'>(a)});
    exp32("add.cc same operand thrice", a, 0xFFFFFFFEu);
    exec("addc.u32 %0, 10, 20;", {out<'=', 'r'>(b)});
    exp32("CF persists across asm statements", b, 31);
    // add without .cc leaves CF alone
    exec("add.u32 %0, 1, 1; addc.u32 %1, 0, 0;", {out<'=', 'r'>(a), out<'=', 'r'>(b)});
    exp32("add.u32", a, 2); exp32("add.u32 does not touch CF", b, 1);
    // u64
    x = 0xFFFFFFFFFFFFFFFFULL; y = 0xFFFFFFFFFFFFFFFFULL;
    exec("add.cc.u64 %0, %0, %2; addc.u32 %1, 0, 0;", {out<'+', 'l'>(x), out<'=', 'r'>(a)}, {in<'l'>(y)});
    exp64("add.cc.u64 max+max", x, 0xFFFFFFFFFFFFFFFEULL); exp32("add.cc.u64 carry", a, 1);
    x = 0xFFFFFFFF00000000ULL; y = 0x00000000FFFFFFFFULL;
    exec("add.cc.u64 %0, %0, %2; addc.u32 %1, 0, 0;", {out<'+', 'l'>(x), out<'=', 'r'>(a)}, {in<'l'>(y)});
    exp64("add.cc.u64 no carry", x, 0xFFFFFFFFFFFFFFFFULL); exp32("add.cc.u64 no carry flag", a, 0);
    // ---- sub.cc / subc: 0 - 1 = 0xFFFFFFFF borrow 1; subc 5-0-1 = 4 ; subc.u32 d,0,0 = 0xFFFFFFFF
    a = 0; b = 1;
    exec("sub.cc.u32 %0, %3, %4; subc.u32 %1, 5, 0; subc.u32 %2, 0, 0;", {out<'=', 'r'>(c), out<'=', 'r'>(d), out<'=', 'r'>(e)}, {in<'r'>(a), in<'r'>(b)});
    exp32("sub.cc.u32 0-1", c, 0xFFFFFFFFu); exp32("subc.u32 5-0-borrow", d, 4); exp32("subc.u32 0-0-borrow", e, 0xFFFFFFFFu);
    // no borrow: 5 - 5
    exec("sub.cc.u32 %0, 5, 5; subc.u32 %1, 0, 0;", {out<'=', 'r'>(c), out<'=', 'r'>(d)});
    exp32("sub.cc.u32 5-5", c, 0); exp32("subc no borrow", d, 0);
    // subc.cc: borrow-in makes b+CF = 2^32: 0 - (0xFFFFFFFF + 1) = 0 with borrow 1
    exec("sub.cc.u32 %0, 0, 1; subc.cc.u32 %1, 0, 0xFFFFFFFF; subc.u32 %2, 0, 0;", {out<'=', 'r'>(c), out<'=', 'r'>(d), out<'=', 'r'>(e)});
    exp32("subc.cc 0-(0xffffffff+1)", d, 0); exp32("subc.cc borrow out when b+CF wraps", e, 0xFFFFFFFFu);
    // subc.cc: 1 - (0+1) = 0 no borrow
    exec("sub.cc.u32 %0, 0, 1; subc.cc.u32 %1, 1, 0; subc.u32 %2, 7, 0;", {out<'=', 'r'>(c), out<'=', 'r'>(d), out<'=', 'r'>(e)});
    exp32("subc.cc 1-0-1", d, 0); exp32("subc after cleared borrow", e, 7);
    // 64-bit borrow into 32-bit subc: 1 - 2 ; then carry(=1) - borrow = 0
    x = 1; y = 2; a = 1;
    exec("sub.cc.u64 %0, %2, %3; subc.u32 %1, %1, 0;", {out<'=', 'l'>(z), out<'+', 'r'>(a)}, {in<'l'>(x), in<'l'>(y)});
    exp64("sub.cc.u64 1-2", z, 0xFFFFFFFFFFFFFFFFULL); exp32("subc.u32 1-0-borrow", a, 0);
    x = 0xFFFFFFFF00000001ULL; y = 0xFFFFFFFF00000001ULL; a = 0;
    exec("sub.cc.u64 %0, %2, %3; subc.u32 %1, %1, 0;", {out<'=', 'l'>(z), out<'+', 'r'>(a)}, {in<'l'>(x), in<'l'>(y)});
    exp64("sub.cc.u64 p-p", z, 0); exp32("subc.u32 0-0-0", a, 0);
    // ---- mul.lo / mul.hi / mul.wide
    a = 0xFFFFFFFFu; b = 0xFFFFFFFFu;
    exec("mul.lo.u32 %0, %2, %3; mul.hi.u32 %1, %2, %3;", {out<'=', 'r'>(c), out<'=', 'r'>(d)}, {in<'r'>(a), in<'r'>(b)});
    exp32("mul.lo.u32 f*f", c, 1); exp32("mul.hi.u32 f*f", d, 0xFFFFFFFEu);
    a = 0x10000u; b = 0x10001u;
    exec("mul.lo.u32 %0, %2, %3; mul.hi.u32 %1, %2, %3;", {out<'=', 'r'>(c), out<'=', 'r'>(d)}, {in<'r'>(a), in<'r'>(b)});
    exp32("mul.lo.u32 0x10000*0x10001", c, 0x00010000u); exp32("mul.hi.u32 0x10000*0x10001", d, 1);
    a = 0xFFFFFFFFu; b = 0xFFFFFFFFu;
    exec("mul.wide.u32 %0, %1, %2;", {out<'=', 'l'>(x)}, {in<'r'>(a), in<'r'>(b)});
    exp64("mul.wide.u32 f*f", x, 0xFFFFFFFE00000001ULL);
    exec("mul.hi.s32 %0, %1, %2;", {out<'=', 'r'>(c)}, {in<'r'>(a), in<'r'>(b)}); // (-1)*(-1) = 1 -> hi 0
    exp32("mul.hi.s32 (-1)*(-1)", c, 0);
    x = 0xFFFFFFFFFFFFFFFFULL; y = 2;
    exec("mul.hi.u64 %0, %1, %2;", {out<'=', 'l'>(z)}, {in<'l'>(x), in<'l'>(y)});
    exp64("mul.hi.u64 max*2", z, 1);
    // ---- mad.lo.cc / madc.hi.cc: f*f = 0xFFFFFFFE_00000001; lo + 0xFFFFFFFF = 0 carry 1; hi + 1 + 1 = 0 carry 1
    a = 0xFFFFFFFFu; b = 0xFFFFFFFFu; c = 0xFFFFFFFFu; d = 1;
    exec("mad.lo.cc.u32 %0, %3, %4, %0; madc.hi.cc.u32 %1, %3, %4, %1; addc.u32 %2, 0, 0;", {out<'+', 'r'>(c), out<'+', 'r'>(d), out<'=', 'r'>(e)}, {in<'r'>(a), in<'r'>(b)});
    exp32("mad.lo.cc", c, 0); exp32("madc.hi.cc", d, 0); exp32("madc.hi.cc carry", e, 1);
    // no carries: 3*5 + 7 = 22, hi 0 + 9 + 0 = 9
    a = 3; b = 5; c = 7; d = 9;
    exec("mad.lo.cc.u32 %0, %3, %4, %0; madc.hi.cc.u32 %1, %3, %4, %1; addc.u32 %2, 0, 0;", {out<'+', 'r'>(c), out<'+', 'r'>(d), out<'=', 'r'>(e)}, {in<'r'>(a), in<'r'>(b)});
    exp32("mad.lo.cc small", c, 22); exp32("madc.hi.cc small", d, 9); exp32("madc.hi.cc no carry", e, 0);
    // madc.hi without .cc leaves CF; mad.hi.cc; madc.lo.cc consumes CF
    a = 0xFFFFFFFFu; b = 2; c = 0xFFFFFFFFu;   // a*b = 0x1_FFFFFFFE
    exec("add.cc.u32 %0, %0, 1; madc.hi.u32 %1, %3, %4, 0; addc.u32 %2, 0, 0;", {out<'+', 'r'>(c), out<'=', 'r'>(d), out<'=', 'r'>(e)}, {in<'r'>(a), in<'r'>(b)});
    exp32("madc.hi.u32 hi(f*2)+0+CF", d, 2); exp32("madc.hi without .cc keeps CF", e, 1);
    exec("sub.cc.u32 %0, 0, 0; mad.hi.cc.u32 %1, %3, %4, 0xFFFFFFFF; madc.lo.cc.u32 %2, %3, %4, 1;", {out<'=', 'r'>(c), out<'=', 'r'>(d), out<'=', 'r'>(e)}, {in<'r'>(a), in<'r'>(b)});
    exp32("mad.hi.cc 1+0xffffffff", d, 0); exp32("madc.lo.cc 0xfffffffe+1+CF", e, 0);
    exp32("CF after madc.lo.cc overflow", carry_flag(), 1);
    exec("mad.lo.u32 %0, %1, %2, 10;", {out<'=', 'r'>(c)}, {in<'r'>(a), in<'r'>(b)});
    exp32("mad.lo.u32 without cc", c, 0xFFFFFFFEu + 10u); exp32("mad.lo without .cc keeps CF", carry_flag(), 1);
    // ---- scopes, setp, selp, guards
    size_t sc0 = open_scopes(), nr0 = live_named_registers();
    exec("{ .reg.pred %t1;");
    exec("{ .reg .pred %t2; .reg .u32 %r1;");
    exp32("two scopes open", (uint32_t)(open_scopes() - sc0), 2); exp32("three registers live", (uint32_t)(live_named_registers() - nr0), 3);
    a = 0xFFFFFFFFu;
    exec("setp.eq.u32 %t1, %0, 0;", {}, {in<'r'>(a)});
    x = 1; y = 2;
    exec("selp.u64 %0, %1, %2, %t1;", {out<'=', 'l'>(z)}, {in<'l'>(x), in<'l'>(y)});
    exp64("setp.eq false -> selp picks b", z, 2);
    exec("setp.ne.u32 %t1, %0, 0;", {}, {in<'r'>(a)});
    exec("selp.u64 %0, %1, %2, %t1;", {out<'=', 'l'>(z)}, {in<'l'>(x), in<'l'>(y)});
    exp64("setp.ne true -> selp picks a", z, 1);
    exec("setp.lt.s32 %t2, %0, 0;", {}, {in<'r'>(a)}); // -1 < 0 signed
    exec("selp.u32 %0, 11, 22, %t2;", {out<'=', 'r'>(c)});
    exp32("setp.lt.s32 -1<0", c, 11);
    exec("setp.lt.u32 %t2, %0, 0;", {}, {in<'r'>(a)}); // unsigned: false
    exec("selp.u32 %0, 11, 22, %t2;", {out<'=', 'r'>(c)});
    exp32("setp.lt.u32 0xffffffff<0", c, 22);
    exec("setp.gt.u32 %t2, %0, 5;", {}, {in<'r'>(a)});
    exec("selp.u32 %0, 11, 22, %t2;", {out<'=', 'r'>(c)});
    exp32("setp.gt.u32", c, 11);
    exec("setp.ge.s32 %t2, %0, 0; mov.b32 %r1, 77;", {}, {in<'r'>(a)});
    exec("selp.u32 %0, %r1, 22, %t2;", {out<'=', 'r'>(c)});
    exp32("setp.ge.s32 -1>=0 false", c, 22);
    exec("setp.le.u32 %t2, 5, 5;");
    exec("selp.u32 %0, %r1, 22, %t2;", {out<'=', 'r'>(c)});
    exp32("setp.le true, named b32 source", c, 77);
    // predicated mov: taken and skipped, negated guard, predicated setp
    x = 5; y = 9;
    exec("setp.ne.u32 %t1, 1, 0;");
    exec("@%t1 mov.b64 %0, %1;", {out<'+', 'l'>(x)}, {in<'l'>(y)});
    exp64("guard true executes mov", x, 9);
    x = 5;
    exec("@!%t1 mov.b64 %0, %1;", {out<'+', 'l'>(x)}, {in<'l'>(y)});
    exp64("negated guard skips mov", x, 5);
    exec("setp.ne.u32 %t1, 0, 0;");
    exec("@%t1 mov.b64 %0, %1;", {out<'+', 'l'>(x)}, {in<'l'>(y)});
    exp64("guard false skips mov", x, 5);
    exec("@%t1 setp.eq.u32 %t1, 0, 0;"); // skipped: stays false
    exec("@!%t1 add.u64 %0, %0, %1;", {out<'+', 'l'>(x)}, {in<'l'>(y)});
    exp64("predicated setp skipped, negated guard executes add", x, 14);
    exec("setp.eq.u32 %t1, 0, 0;");
    exec("@%t1 setp.eq.u32 %t1, 3, 4;"); // executed: becomes false
    exec("selp.u32 %0, 1, 0, %t1;", {out<'=', 'r'>(c)});
    exp32("predicated setp executed", c, 0);
    // inner scope shadows / closes
    exec("}");
    exp32("inner scope closed", (uint32_t)(open_scopes() - sc0), 1); exp32("one register left", (uint32_t)(live_named_registers() - nr0), 1);
    exec("}");
    exp32("all scopes closed", (uint32_t)(open_scopes() - sc0), 0);
    // ---- mov.b64 pack / unpack / plain
    a = 0x89ABCDEFu; b = 0x01234567u;
    exec("mov.b64 %0, {%1, %2};", {out<'=', 'l'>(x)}, {in<'r'>(a), in<'r'>(b)});
    exp64("mov.b64 d,{lo,hi}", x, 0x0123456789ABCDEFULL);
    exec("mov.b64 {%0, %1}, %2;", {out<'=', 'r'>(c), out<'=', 'r'>(d)}, {in<'l'>(x)});
    exp32("mov.b64 {lo,hi},a lo", c, 0x89ABCDEFu); exp32("mov.b64 {lo,hi},a hi", d, 0x01234567u);
    exec("mov.b64 %0, %1;", {out<'=', 'l'>(y)}, {in<'l'>(x)});
    exp64("mov.b64 plain", y, x);
    // ---- trap
    bool trapped = false;
    try { exec("trap;"); } catch (const Trap &) { trapped = true; }
    exp32("trap raises", trapped, 1);
    // ---- composite: 128-bit add and 64x64->128 multiply through the flag chain against __int128
    uint64_t sd = 0x1234567;
    for (int it = 0; it < 2000; it++)
    {
        auto nx = [&]() { sd ^= sd << 13; sd ^= sd >> 7; sd ^= sd << 17; return (it & 3) == 0 ? (sd | 0xFFFFFFFF00000000ULL) : (it & 3) == 1 ? (sd & 0xFFFFFFFFULL) * 0xFFFFFFFFULL : sd; };
        uint64_t p = nx(), q = nx();
        uint32_t p0 = (uint32_t)p, p1 = (uint32_t)(p >> 32), q0 = (uint32_t)q, q1 = (uint32_t)(q >> 32), t[4], cy;
        exec("mul.lo.u32 %0, %2, %3; mul.hi.u32 %1, %2, %3;", {out<'=', 'r'>(t[0]), out<'=', 'r'>(t[1])}, {in<'r'>(p0), in<'r'>(q0)});
        exec("mul.lo.u32 %0, %2, %3; mul.hi.u32 %1, %2, %3;", {out<'=', 'r'>(t[2]), out<'=', 'r'>(t[3])}, {in<'r'>(p1), in<'r'>(q1)});
        exec("mad.lo.cc.u32 %0, %3, %4, %0; madc.hi.cc.u32 %1, %3, %4, %1; addc.u32 %2, 0, 0;", {out<'+', 'r'>(t[1]), out<'+', 'r'>(t[2]), out<'=', 'r'>(cy)}, {in<'r'>(p0), in<'r'>(q1)});
        exec("mad.lo.cc.u32 %0, %3, %4, %0; madc.hi.cc.u32 %1, %3, %4, %1; addc.u32 %2, %2, %5;", {out<'+', 'r'>(t[1]), out<'+', 'r'>(t[2]), out<'+', 'r'>(t[3])}, {in<'r'>(p1), in<'r'>(q0), in<'r'>(cy)});
        u128_t want = (u128_t)p * q;
        u128_t got = ((u128_t)t[3] << 96) | ((u128_t)t[2] << 64) | ((u128_t)t[1] << 32) | t[0];
        if (got != want) { bad++; fprintf(log, "ptx selftest FAILED: 64x64 product of %016llx %016llx\n", (unsigned long long)p, (unsigned long long)q); break; }
        uint32_t s[4] = {p0, p1, q0, q1}, r4[5];
        exec("add.cc.u32 %0, %5, %7; addc.cc.u32 %1, %6, %8; addc.cc.u32 %2, %7, %5; addc.cc.u32 %3, %8, %6; addc.u32 %4, 0, 0;",
             {out<'=', 'r'>(r4[0]), out<'=', 'r'>(r4[1]), out<'=', 'r'>(r4[2]), out<'=', 'r'>(r4[3]), out<'=', 'r'>(r4[4])},
             {in<'r'>(s[0]), in<'r'>(s[1]), in<'r'>(s[2]), in<'r'>(s[3])});
        u128_t A = ((u128_t)q << 64) | p, B = ((u128_t)p << 64) | q, S = A + B;
        u128_t gs = ((u128_t)r4[3] << 96) | ((u128_t)r4[2] << 64) | ((u128_t)r4[1] << 32) | r4[0];
        if (gs != S || r4[4] != (uint32_t)(S < A)) { bad++; fprintf(log, "ptx selftest FAILED: 128-bit add chain\n"); break; }
        uint32_t d4[5];
        exec("sub.cc.u32 %0, %5, %7; subc.cc.u32 %1, %6, %8; subc.cc.u32 %2, %7, %5; subc.cc.u32 %3, %8, %6; subc.u32 %4, 0, 0;",
             {out<'=', 'r'>(d4[0]), out<'=', 'r'>(d4[1]), out<'=', 'r'>(d4[2]), out<'=', 'r'>(d4[3]), out<'=', 'r'>(d4[4])},
             {in<'r'>(s[0]), in<'r'>(s[1]), in<'r'>(s[2]), in<'r'>(s[3])});
        u128_t D = A - B;
        u128_t gd = ((u128_t)d4[3] << 96) | ((u128_t)d4[2] << 64) | ((u128_t)d4[1] << 32) | d4[0];
        if (gd != D || d4[4] != (A < B ? 0xFFFFFFFFu : 0u)) { bad++; fprintf(log, "ptx selftest FAILED: 128-bit sub chain\n"); break; }
    }
    trace_reset();
    return bad;
}

} // namespace ptx
