"""Per-property check definitions (what is built, which workloads run, which path classes must be seen)."""
import json
import os
import time

import vfw
from vfw import VERIF, NCPU

H = lambda n: os.path.join(VERIF, "harness", n)

REGISTRY = {}


def reg(*ids):
    def deco(fn):
        for i in ids:
            REGISTRY[i] = fn
        return fn
    return deco


def scaled(tier, quick, thorough):
    return str(thorough if tier == "thorough" else quick)


ASSUME_COMMON = [
    "the u128 '%' / GMP reference arithmetic is correct (the two are cross-checked against each other on samples)",
    "g++ 12 and the sanitizer runtimes of this sandbox behave as documented",
    "verdict covers executed inputs/configurations only; nothing is claimed about inputs not executed",
]

# ------------------------------------------------------------------------------------------ C01 / C10 / C15
FIELD_RULES = {
    "C01": "operand pairs from: full cross product of the fixed set (boundary values B0 + 8x8 limb lattice), solve-for "
           "families constructed backwards from the intermediate sum/difference/128-bit product pattern, signed sparse pairs, and a mixed "
           "random filler; every pair is run through add/sub/mul/square/neg/inc/dec/mulScalar in returning, reference, operator and all "
           "aliasing forms and compared with the u128 oracle. A pair is non-trivial when the shadow classifier sees at least one "
           "correction path (carry/borrow), a hi-word boundary pattern or a non-canonical operand; distinct = distinct 64-bit hash "
           "of (a,b), counted in a capped set (65536 per process), so distinct_nontrivial is a lower bound.",
    "C10": "non-zero operands from the fixed boundary set, Fibonacci numbers and p-F (quotient-1 Euclid chains), floor(p/k)+-1, 2^k+-1, "
           "non-canonical aliases, plus mixed random operands; inv checked by a*inv(a)=1 and equality with a^(p-2), div by q*b=a, exp by "
           "square-and-multiply in the oracle; refusal of inv/div on 0 and p observed in forked children (marker pipe must stay empty). "
           "Every case is non-trivial (each exercises the full Euclid loop); distinct = hash of operands (capped set).",
    "C15": "uint64/int64/int32 boundary neighbourhoods, all int32 (thorough) or all values within 4096 of every +-2^k plus random (quick), "
           "the +-70000 window around INT32_MIN/MAX as field elements in both representations, integers around 0, +-p, +-2p, +-3p, +-2^64, "
           "+-2^200, +-p^2 as strings in every radix 2..36 in both letter cases and as mpz, random big integers; GMP floor-mod oracle. "
           "non-trivial = negative, non-canonical, out-of-range or non-decimal cases; distinct by hash (capped).",
}
FIELD_REQUIRED = {
    "C01": ["add:no_carry", "add:one_carry", "add:two_carries", "sub:no_borrow", "sub:one_borrow", "sub:two_borrows",
            "mul:carry0_borrow0", "mul:carry0_borrow1", "mul:carry1_borrow0", "mul:carry1_borrow1", "mul:hi_zero",
            "mul:hi_lo_ffffffff", "mul:hi_hi_ffffffff", "inc:plus1", "inc:wrap_to_zero", "inc:via_add", "dec:minus1", "dec:wrap",
            "in:noncanonical_operand", "out:noncanonical_result", "alias:pairs_checked", "oracle:gmp_crosschecks", "family:concurrent_callers", "family:literal_operand_call_sites"],
    "C10": ["family:inv_directed", "family:inv_random", "inv:noncanonical_operand", "exp:exponent_zero", "exp:exponent_one",
            "exp:general", "exp:noncanonical_base", "exp:zero_base", "refusal:cases", "refusal:cases_after_successful_inversions", "family:concurrent_callers"],
    "C15": ["fromS32:int32_min", "fromS32:negative", "fromS64:negative", "fromS64:beyond_centred_range", "fromString:below_minus_p",
            "fromString:negative", "fromString:above_p", "fromString:non_decimal_radix", "toS32:int32_min", "toS32:int32_max",
            "toS32:out_of_range", "equal:alias_pairs", "out:noncanonical_representation", "toString:radix_checked", "family:concurrent_callers", "fromString:same_literal_in_consecutive_radices", "forms:result_is_the_operand_word"],
}


@reg("C01", "C10", "C15")
def check_field(prop, tier, seed, work, t0):
    bins = vfw.build_many(work, [
        {"name": "fieldops-prod", "flavour": "prod", "srcs": [H("fieldops.cpp")], "libsrcs": ["goldilocks_base_field.cpp"]},
        {"name": "fieldops-asan", "flavour": "asan", "srcs": [H("fieldops.cpp")], "libsrcs": ["goldilocks_base_field.cpp"]},
    ])
    res = vfw.Results()
    th = tier == "thorough"
    if prop == "C01":
        a_prod = ["--random", scaled(tier, 200000000, 60000000000), "--sparse", scaled(tier, 4000000, 200000000)]
        a_asan = ["--random", scaled(tier, 4000000, 200000000), "--sparse", scaled(tier, 400000, 4000000)]
    elif prop == "C10":
        a_prod = ["--random", scaled(tier, 8000000, 3000000000)]
        a_asan = ["--random", scaled(tier, 800000, 20000000)]
    else:
        a_prod = ["--random", scaled(tier, 6000000, 500000000), "--strings", scaled(tier, 300000, 20000000)]
        a_asan = ["--random", scaled(tier, 600000, 6000000), "--strings", scaled(tier, 30000, 300000), "--int32", "sampled"]
    res.merge(vfw.run_shards(work, bins["fieldops-prod"], prop, tier, seed, NCPU, a_prod, tag="prod", timeout=7200 if th else 1500))
    res.merge(vfw.run_shards(work, bins["fieldops-asan"], prop, tier, seed + 1000003, NCPU, a_asan, tag="asan", timeout=7200 if th else 1500))
    extra = {}
    if prop == "C15" and th:
        extra["int32_exhaustive"] = res.counters.get("s32_exhaustive:complete_range_shards", 0) == NCPU
    return vfw.finalize(prop, tier, seed, res, t0, FIELD_RULES[prop], assumptions=ASSUME_COMMON, required=FIELD_REQUIRED[prop],
                        extra_cov=extra, replay_info={"harness": "fieldops.cpp", "how": "./check %s --replay <file>" % prop})


# ------------------------------------------------------------------------------------------ C02 / C11 / C13 / C14
LANE_REQUIRED = ["build:march_native_processes", "family:fixed_x_fixed", "family:small_grid", "family:solve_sum", "family:product_target", "family:mixed_random", "family:concurrent_callers",
                 "lane:a_noncanonical_canonicalised", "lane:add_overflow_corrected", "lane:add_no_overflow", "lane:small_equal_high_halves",
                 "lane:small_low_half_carry", "lane:sub_underflow_corrected", "lane:sub_no_underflow", "lane:true_sum_or_diff_noncanonical_band",
                 "lane:b_equals_0xFFFFFFFF00000000", "lane:mul_hi_lo_ffffffff", "lane:mul_hi_hi_ffffffff", "lane:mul_hi_zero",
                 "lane:load_store_set_shift_checked", "lane:in_place_call_forms"]
MAT_REQUIRED = ["build:march_native_processes", "forms:result_register_is_state_register", "forms:changed_matrix_at_the_same_address", "forms:coefficient_array_of_exact_extent", "family:concurrent_callers", "band:probed_lane_products_noncanonical", "band:probed_two_or_more_noncanonical_addends_in_one_lane",
                "band:state_positions_with_product_in_[p,2^64)"] + \
    ["matfam:%s:%s" % (f, w) for f in ("uniform", "boundary", "band_directed", "three_times_5555", "quotient_like", "low_word_8bit_high_word_set", "coefficients_below_2^32") for w in ("8bit", "full")]
LANE_RULE = ("every lane of every call carries a different operand pair (lane position rotated per call); pairs from the fixed boundary set "
             "cross product, the '_small' grid (high halves equal/adjacent/sign-flipped, low halves summing just below/at/above 2^32, "
             "b up to and including 0xFFFFFFFF00000000), solve-for sums around 2^64/p/2p, 128-bit product targets (hi_lo=0xFFFFFFFF, "
             "hi_hi=0xFFFFFFFF, product exactly in [p,2^64)), and mixed random pairs; each pair is constrained per kernel to exactly the "
             "documented operand assumption (shifted / canonical / <=0xFFFFFFFF00000000 / <2^8 / high word <2^32) and the lane result compared "
             "with the scalar oracle (congruence, exact canonical value, or exact 128/72-bit integer as the kernel documents). evaluations = "
             "lane evaluations; non-trivial = pair takes a correction path or hits a boundary pattern by the shadow classifier; distinct by "
             "hash of the pair (capped set, lower bound).")
MAT_RULE = ("trials = (state(s), 144 coefficients) drawn from five families: uniform, boundary values, band-directed (state = floor(t/coef) "
            "with t in [p,2^64) so lane products are exactly non-canonical, rows sharing coefficients so the band appears in >=2 addends and "
            ">=2 lanes), 3*0x5555555555555555, quotient-like states against 8-bit coefficients; every kernel (unaligned at offsets 0..3, "
            "aligned, 8-bit when all coefficients < 256) compared with the integer matrix-vector oracle per state. The harness probes the "
            "intermediate lane products to count how many were non-canonical. Every trial is distinct (fresh random draw) and non-trivial "
            "(12..144 products reduced and summed); distinct by hash (capped).")


@reg("C02", "C11", "C13", "C14")
def check_vec(prop, tier, seed, work, t0):
    is512 = prop in ("C11", "C14")
    if is512 and not vfw.have_avx512():
        raise vfw.Inconclusive("this CPU has no AVX-512F; %s cannot be executed" % prop)
    sfx = "512" if is512 else ""
    bins = vfw.build_many(work, [
        {"name": "vecops-prod" + sfx, "flavour": "prod" + sfx, "srcs": [H("vecops.cpp")], "libsrcs": ["goldilocks_base_field.cpp"]},
        {"name": "vecops-asan" + sfx, "flavour": "asan" + sfx, "srcs": [H("vecops.cpp")], "libsrcs": ["goldilocks_base_field.cpp"]},
        {"name": "vecops-native" + sfx, "flavour": "native" + sfx, "srcs": [H("vecops.cpp")], "libsrcs": ["goldilocks_base_field.cpp"]},
    ])
    res = vfw.Results()
    th = tier == "thorough"
    if prop in ("C02", "C11"):
        a_prod = ["--random", scaled(tier, 200000000, 30000000000)]
        a_asan = ["--random", scaled(tier, 2000000, 100000000)]
        required, rule = LANE_REQUIRED + (["lane:load_store_512_checked"] if is512 else []), LANE_RULE
    else:
        a_prod = ["--trials", scaled(tier, 10000000, 2000000000)]
        a_asan = ["--trials", scaled(tier, 100000, 4000000)]
        required, rule = MAT_REQUIRED, MAT_RULE
    res.merge(vfw.run_shards(work, bins["vecops-prod" + sfx], prop, tier, seed, NCPU, a_prod, tag="prod" + sfx, timeout=7200 if th else 1500))
    res.merge(vfw.run_shards(work, bins["vecops-asan" + sfx], prop, tier, seed + 1000003, NCPU, a_asan, tag="asan" + sfx, timeout=7200 if th else 1500))
    # the same workload compiled with -march=native (a build configuration users choose; enables code guarded by finer ISA macros)
    rn = vfw.run_shards(work, bins["vecops-native" + sfx], prop, tier, seed + 2000003, NCPU, a_asan, tag="native" + sfx, timeout=7200 if th else 1500)
    rn.counters["build:march_native_processes"] = NCPU
    res.merge(rn)
    return vfw.finalize(prop, tier, seed, res, t0, rule, assumptions=ASSUME_COMMON, required=required,
                        replay_info={"harness": "vecops.cpp", "how": "./check %s --replay <file>" % prop})


# ------------------------------------------------------------------------------------------ C03 / C04 / C05 / C19
NTT_LIBS = ["goldilocks_base_field.cpp", "ntt_goldilocks.cpp"]
NTT_RULE = {
    "C03": "configurations (object maxDomain 2^S, size 2^d<=2^S incl. d<S and size 0, ncols in {0,1,2,3,4,5,7,8,9,16,17,33}, nphase in {0..d+2, 2^63, 2^64-1}, "
           "nblock in {0,1,2,3,ncols-1,ncols,ncols+1,2^64-1}, caller buffer of exactly size*ceil(ncols/nblock) or NULL, dst in {src, other, NULL}, "
           "threads rotated through {1,2,3,4,8,16,33}) walked exhaustively up to S=smax and sampled up to d=dmax, each executed in exact-size guard-page "
           "buffers on uniform random columns (one random execution per configuration speaks for all inputs of that configuration because the "
           "transform is a data-independent linear map - checked by the linearity monitor), boundary/non-canonical columns and identity matrices, and "
           "compared at every output position with the naive DFT (small n) or an independent recursive FFT cross-checked by Horner at 8 positions. "
           "distinct = distinct configuration tuples plus distinct pass schedules seen through the hook; all are non-trivial (each runs the full pipeline).",
    "C19": "random and pattern-directed call sequences (2-24 calls of NTT/INTT/extendPol with differing sizes, ncols, nphase, nblock, buffer, alias) on one "
           "shared object; every call is also issued on a freshly constructed object and both are compared with the oracle; a call where exactly one of "
           "the two disagrees is a violation with the shortest failing prefix as witness. distinct = distinct sequences.",
}
NTT_RULE["C04"] = NTT_RULE["C03"].replace("naive DFT", "naive inverse DFT (n^-1, w^-1)") + " Additionally INTT(NTT(x)) and NTT(INTT(x)) round trips with independently drawn configurations for the two legs."
NTT_RULE["C05"] = ("configurations (N=2^a<=N_ext=2^e incl. a=0 and a=e, object built for N and for larger sizes, ncols in {1,2,3,5,8,9,17}, the nphase/nblock/"
                   "buffer/thread sets of C03, output==input (N_ext rows) or distinct) walked exhaustively up to e=emax and sampled above; oracle = inverse DFT of "
                   "the column then Horner evaluation at 7*w_Next^k for every k (or recursive FFT of the shifted coefficients cross-checked by Horner); rows beyond N "
                   "of an in-place buffer hold garbage that must not matter. distinct = configuration tuples + hook schedules.")
NTT_REQUIRED = {
    "C03": ["cfg:NTT", "cfg:alias0", "cfg:alias1", "cfg:alias2", "cfg:blocked_even", "cfg:blocked_uneven", "cfg:caller_buffer", "cfg:even_effective_phases",
            "cfg:odd_effective_phases", "cfg:nblock_clamped", "cfg:nphase_clamped", "cfg:size_below_object_domain", "cfg:size_one", "cfg:size_zero_noop",
            "cfg:zero_columns_noop", "cfg:identity_matrix_input", "cfg:boundary_input", "cfg:sparse_structured_input", "cfg:object_used_before", "hook:revperm:branch0", "hook:revperm:branch2",
            "hook:ntt_pass:writeback0", "hook:ntt_land:in_destination", "monitor:linearity_triples", "monitor:root_table_entries_checked",
            "omp_shim:regions_with_permuted_member_order", "omp:real_libgomp_processes", "oracle:naive_dft_columns", "oracle:recursive_fft_columns", "threadlimit2:cfg:alias1",
            "family:callers_inside_an_OpenMP_team", "family:plain_thread_callers"],
    "C19": ["history:sequences", "history:extendPol_N_grows", "history:extendPol_N_shrinks", "history:large_then_small", "history:blocked_unblocked_switch",
            "history:two_objects_interleaved", "hook:extendPol:tables_recomputed", "hook:extendPol:tables_reused"] +
           ["history:pair:%s->%s" % (a, b) for a in ("NTT", "INTT", "extendPol") for b in ("NTT", "INTT", "extendPol")],
}
NTT_REQUIRED["C04"] = [c.replace("cfg:NTT", "cfg:INTT") for c in NTT_REQUIRED["C03"]] + ["hook:ntt_pass:writeback1", "roundtrip:INTT_of_NTT", "roundtrip:NTT_of_INTT"]
NTT_REQUIRED["C05"] = ["cfg:extendPol", "cfg:alias0", "cfg:alias1", "cfg:blocked_even", "cfg:blocked_uneven", "cfg:caller_buffer", "cfg:even_effective_phases",
                       "cfg:odd_effective_phases", "cfg:extend_same_size", "cfg:extend_onsite_zero_padding", "cfg:size_one", "cfg:boundary_input", "cfg:object_used_before",
                       "hook:revperm:branch0", "hook:revperm:branch1", "hook:revperm:branch2", "hook:revperm:branch3", "hook:ntt_pass:writeback2",
                       "hook:computeR", "monitor:linearity_triples", "monitor:root_table_entries_checked", "omp_shim:regions_with_permuted_member_order",
                       "omp:real_libgomp_processes", "threadlimit2:cfg:alias1", "family:callers_inside_an_OpenMP_team", "family:plain_thread_callers", "cfg:sparse_structured_input"]


def check_shim_symbols(binary):
    """the stand-in implements exactly the runtime symbols the library imports; a new one makes the run inconclusive"""
    import subprocess
    out = subprocess.run(["nm", "-u", binary], capture_output=True, text=True).stdout
    bad = [l.split()[-1] for l in out.splitlines() if ("GOMP_" in l or " omp_" in l or "GOACC" in l)]
    if bad:
        raise vfw.Inconclusive("OpenMP runtime symbols not provided by the stand-in: %s" % bad)


@reg("C03", "C04", "C05", "C19")
def check_ntt(prop, tier, seed, work, t0):
    bins = vfw.build_many(work, [
        {"name": "ntt-shim", "flavour": "shim", "srcs": [H("ntt.cpp")], "libsrcs": NTT_LIBS},
        {"name": "ntt-prod", "flavour": "prod", "srcs": [H("ntt.cpp")], "libsrcs": NTT_LIBS},
        {"name": "ntt-asan", "flavour": "asan", "srcs": [H("ntt.cpp")], "libsrcs": NTT_LIBS},
    ])
    check_shim_symbols(bins["ntt-shim"])
    th = tier == "thorough"
    res = vfw.Results()
    to = 10800 if th else 1500
    if prop == "C19":
        res.merge(vfw.run_shards(work, bins["ntt-shim"], prop, tier, seed, NCPU, ["--sequences", scaled(tier, 3000, 300000), "--hist_smax", scaled(tier, 7, 11)], tag="shim-seq", timeout=to))
        res.merge(vfw.run_shards(work, bins["ntt-prod"], prop, tier, seed + 7, 8, ["--sequences", scaled(tier, 300, 3000)], tag="libgomp", timeout=to))
        res.merge(vfw.run_shards(work, bins["ntt-asan"], prop, tier, seed + 13, NCPU, ["--sequences", scaled(tier, 500, 6000)], tag="asan", timeout=to))
    else:
        grid = {"C03": ["--smax", scaled(tier, 6, 11), "--dmax", scaled(tier, 13, 20), "--large", scaled(tier, 200, 8000), "--thin", "1"],
                "C04": ["--smax", scaled(tier, 6, 11), "--dmax", scaled(tier, 13, 20), "--large", scaled(tier, 200, 8000), "--thin", "1", "--roundtrips", scaled(tier, 20000, 1000000)],
                "C05": ["--emax", scaled(tier, 6, 11), "--elarge", scaled(tier, 12, 20), "--large", scaled(tier, 150, 5000), "--thin", scaled(tier, 2, 1)]}[prop]
        res.merge(vfw.run_shards(work, bins["ntt-shim"], prop, tier, seed, NCPU, grid, tag="shim-seq", timeout=to))
        res.merge(vfw.run_shards(work, bins["ntt-prod"], prop, tier, seed, 8, grid + ["--slice", "20", "--linearity", "0", "--roundtrips", scaled(tier, 2000, 20000), "--d22", "0"],
                                 tag="libgomp", timeout=to))
        res.merge(vfw.run_shards(work, bins["ntt-asan"], prop, tier, seed, NCPU, grid + ["--slice", scaled(tier, 8, 4), "--large", scaled(tier, 20, 100), "--dmax", "12", "--elarge", "11",
                                                                                   "--roundtrips", scaled(tier, 2000, 20000), "--d22", "0"], tag="asan", timeout=to))
        # the runtime may deliver fewer threads than the object asks for (thread limit, nested region): same results required
        rl = vfw.run_shards(work, bins["ntt-prod"], prop, tier, seed + 9, 8, grid + ["--slice", scaled(tier, 30, 10), "--linearity", "0", "--roundtrips", scaled(tier, 1000, 10000), "--d22", "0", "--big", "0"],
                            tag="libgomp-threadlimit2", timeout=to, env={"OMP_THREAD_LIMIT": "2"})
        rl.counters = {("threadlimit2:" + k if k.startswith("cfg:alias") else k): v for k, v in rl.counters.items()}
        res.merge(rl)
    return vfw.finalize(prop, tier, seed, res, t0, NTT_RULE[prop], assumptions=ASSUME_COMMON + [
        "the pinned table of 33 roots in the oracle (self-checked for order and the chain W[k+1]^2=W[k]) defines w_n",
        "the pthread stand-in for libgomp delivers legal OpenMP schedules (sequential permuted member order); a 5% slice runs on real libgomp"],
        required=NTT_REQUIRED[prop], replay_info={"harness": "ntt.cpp", "how": "./check %s --replay <file>" % prop})


# ------------------------------------------------------------------------------------------ C06 / C07 / C08
POS_LIBS = ["goldilocks_base_field.cpp", "goldilocks_cubic_extension.cpp", "poseidon_goldilocks.cpp"]
POS_RULE = {
    "C06": "states from eight families: uniform, all-boundary (non-canonical included), single hot boundary element in each of the 12 positions, mixed G64, and "
           "inverse-constructed states for full rounds 0,1,2 of the first half (the vector that must reach the linear layer is chosen from boundary families - "
           "products with the 8-bit matrix just below 2^64 or exactly in [p,2^64), 0x5555.., values near 0 and p - and the input is solved for with 7th roots and "
           "the inverse MDS matrix in the oracle, then presented in canonical or +p alias form); each state is run through hash_full_result_seq / hash_full_result "
           "(also in place) / hash_seq / hash and, in the AVX-512 build, hash_full_result_avx512 / hash_avx512 as first and as second state of an interleaved pair "
           "with an independent partner, and compared with a reference permutation written from the spec over the oracle field. The oracle must reproduce the two "
           "published known answers; the flattened matrices are checked against the row forms and the constant tables against a pinned hash. All states are "
           "non-trivial (31 rounds); distinct by hash of the state (capped set).",
    "C07": "every length 0..264 and 1000, 4096, 4097, 65537 with uniform / boundary / mixed / constructed contents; inputs live in exact-size buffers flush against a "
           "PROT_NONE page (after or before the buffer; malloc under ASan), the digest in a 4 (8) element window framed by sentinels; linear_hash_seq, linear_hash and "
           "linear_hash_avx512 (two consecutive inputs) compared with a reference sponge on the reference permutation. distinct = (length, content) pairs.",
    "C08": "shapes rows in {1,2,..,256 (+1024,4096 thorough)} x cols in {0..20,63,64,65,128,129} x dim in {1,2,3} x batch in {1,2,3,7,8,cols-1,cols,cols+1,1000} x "
           "threads in {0,1,2,3,8,17} for all eight builders (seq/avx/avx512/default wrapper, plain and batched); tree buffer of exactly getTreeNumElements(rows) "
           "elements and exact-size input in guard-page buffers (malloc under ASan); every element of the buffer compared with a reference tree, root = last four, "
           "helper = 4(2*rows-1). Smallest shapes (rows<=2 or cols<=1) are never thinned out. distinct = configuration tuples.",
}
POS_REQUIRED = {
    "C06": ["family:uniform", "family:all_boundary", "family:single_hot_boundary", "family:mixed_g64", "family:inverse_constructed_round0",
            "family:inverse_constructed_round1", "family:inverse_constructed_round2", "family:inverse_constructed_P_layer", "family:inverse_constructed_partial_round",
            "family:inverse_constructed_second_half", "in:noncanonical_state_element", "backend:avx512_pairs", "forms:chained_in_place_calls",
            "oracle:known_answers_checked", "tables:pinned_hash_checked", "family:concurrent_callers", "coldstart:first_use_is_concurrent"],
    "C07": ["len:zero", "len:passthrough(<=4)", "len:threshold_4_5", "len:single_block", "len:multiple_of_8", "len:ragged_last_block", "len:long", "len:beyond_2^24_elements", "oracle:fast_arithmetic_crosschecked",
            "arena:guard_page_after_input", "arena:guard_page_before_input", "backend:avx512", "oracle:known_answers_checked", "tables:pinned_hash_checked", "family:concurrent_callers"] +
           ["len:residue_mod8_%d" % i for i in range(8)],
    "C08": ["builder:" + b for b in ("merkletree_seq", "merkletree_avx", "merkletree_avx512", "merkletree", "merkletree_batch_seq", "merkletree_batch_avx",
                                     "merkletree_batch_avx512", "merkletree_batch")] +
           ["shape:one_row", "shape:zero_columns", "shape:row_passthrough(<=4 elements)", "shape:dim>1", "batch:even", "batch:ragged_last",
            "batch:larger_than_cols", "threads:default(0)", "threads:more_than_rows", "oracle:known_answers_checked", "tables:pinned_hash_checked",
            "threadlimit2:builder:merkletree_seq", "threadlimit2:builder:merkletree_batch_avx512", "family:concurrent_callers"],
}


_FLAT = {}


def have_flat_tables():
    """the flattened copies M_/P_ of the Poseidon matrices are an implementation detail: the harness checks them when the tree has them
    (decided by a syntax-only compile probe against the current tree)"""
    if vfw.REPO in _FLAT:
        return _FLAT[vfw.REPO]
    import subprocess
    probe = ('#include "poseidon_goldilocks.hpp"\n'
             'unsigned long long f() { return PoseidonGoldilocksConstants::M_[0].fe + PoseidonGoldilocksConstants::P_[143].fe; }\n')
    try:
        r = subprocess.run(["g++", "-std=gnu++17", "-fsyntax-only", "-mavx2", "-fopenmp", "-I" + os.path.join(vfw.REPO, "src"), "-x", "c++", "-"],
                           input=probe, text=True, capture_output=True, timeout=300)
        _FLAT[vfw.REPO] = 1 if r.returncode == 0 else 0
    except Exception:
        _FLAT[vfw.REPO] = 1
    return _FLAT[vfw.REPO]


@reg("C06", "C07", "C08")
def check_poseidon(prop, tier, seed, work, t0):
    if not vfw.have_avx512():
        raise vfw.Inconclusive("this CPU has no AVX-512F; the AVX-512 backends of %s cannot be executed" % prop)
    have_flat = have_flat_tables()
    bins = vfw.build_many(work, [{"name": "pos-" + fl, "flavour": fl, "srcs": [H("poseidon.cpp")], "libsrcs": POS_LIBS, "defs": ["-DVERIF_HAVE_FLAT_TABLES=%d" % have_flat]}
                                 for fl in ("prod", "prod512", "asan", "asan512")])
    th = tier == "thorough"
    to = 10800 if th else 1500
    res = vfw.Results()
    if prop == "C06":
        a = {"prod": ["--states", scaled(tier, 800000, 100000000)], "prod512": ["--states", scaled(tier, 800000, 100000000)],
             "asan": ["--states", scaled(tier, 40000, 1000000)], "asan512": ["--states", scaled(tier, 40000, 1000000)]}
    elif prop == "C07":
        a = {"prod": ["--contents", scaled(tier, 48, 12000)] + (["--beyond24", "1"] if th else []), "prod512": ["--contents", scaled(tier, 48, 12000), "--beyond24", "1"],
             "asan": ["--contents", scaled(tier, 8, 100)], "asan512": ["--contents", scaled(tier, 8, 100)]}
    else:
        a = {"prod": ["--thin", scaled(tier, 6, 2)], "prod512": ["--thin", scaled(tier, 4, 1)],
             "asan": ["--thin", scaled(tier, 6, 2), "--slice", scaled(tier, 3, 2)], "asan512": ["--thin", scaled(tier, 4, 1), "--slice", scaled(tier, 3, 2)]}
    for i, fl in enumerate(("prod512", "prod", "asan512", "asan")):
        res.merge(vfw.run_shards(work, bins["pos-" + fl], prop, tier, seed + 1000 * i, NCPU, a[fl], tag=fl, timeout=to))
    if prop == "C08":
        # the runtime may deliver fewer threads than a builder asks for (thread limit, nested region): the tree must not depend on it
        r2 = vfw.run_shards(work, bins["pos-prod512"], prop, tier, seed + 77, NCPU, ["--thin", scaled(tier, 12, 3)], tag="prod512-threadlimit2", timeout=to,
                            env={"OMP_THREAD_LIMIT": "2"})
        r2.counters = {("threadlimit2:" + k if k.startswith("builder:") else k): v for k, v in r2.counters.items()}
        res.merge(r2)
    return vfw.finalize(prop, tier, seed, res, t0, POS_RULE[prop], assumptions=ASSUME_COMMON + [
        "the specification is the optimised-form Poseidon of the reference implementation with the library's own tables C, S, M, P (pinned by hash, and the oracle reproduces the two published known answers)"],
        required=POS_REQUIRED[prop], replay_info={"harness": "poseidon.cpp", "how": "./check %s --replay <file>" % prop})


# ------------------------------------------------------------------------------------------ C09
C09_RULE = ("coefficient triples: all 12^6 pairs over the 12-value boundary set {0,1,2,p-1,p,p+1,2^64-1,2^32-1,2^32,(p-1)/2,0x5555..,2^63} (exhaustive), mixed G64 "
            "random triples with zero coefficients forced in an eighth of them; every scalar overload of add/sub/neg/mul/square/div/mul-by-u64/mulScalar(decimal string)/"
            "copy/fromU64/toU64 in reference, pointer and aliasing forms (out=a, out=b, a=b) against the schoolbook oracle (integer product, x^3=x+1, mod p); inv by a*inv(a)=1 "
            "and equality with Gaussian elimination in the oracle on structured elements (one/two zero coefficients, base-field elements); batchInverse for every length 1..130 and "
            "1000, 50000, 174762, 174763, 400000 (+3*10^6 thorough), in place and out of place, each in its own forked child; isOne on all 8 representations of (1,0,0) and on "
            "elements differing from one in exactly one coefficient. distinct = hash of the operand pair / index in the exhaustive family (capped set).")
C09_REQUIRED = ["family:boundary_triples_12^6", "family:boundary_triples_exhaustive_shards", "family:random_triples", "family:inv_structured", "forms:aliasing_checked",
                "forms:mulScalar_string", "forms:mulScalar_string_beyond_64_bits", "in:noncanonical_coefficient", "in:element_with_zero_coefficients", "in:base_field_element(b=c=0)", "inv:no_zero_coefficient",
                "inv:one_zero_coefficient", "inv:two_zero_coefficients", "isOne:representations_of_one", "isOne:one_coefficient_off", "isOne:true_cases",
                "batchInverse:every_length_1..130", "batchInverse:long", "batchInverse:beyond_8MiB_of_temporaries", "family:concurrent_callers"]


@reg("C09")
def check_cubic(prop, tier, seed, work, t0):
    libs = ["goldilocks_base_field.cpp", "goldilocks_cubic_extension.cpp"]
    bins = vfw.build_many(work, [{"name": "cubic-prod", "flavour": "prod", "srcs": [H("cubic.cpp")], "libsrcs": libs},
                                 {"name": "cubic-asan", "flavour": "asan", "srcs": [H("cubic.cpp")], "libsrcs": libs}])
    th = tier == "thorough"
    res = vfw.Results()
    res.merge(vfw.run_shards(work, bins["cubic-prod"], prop, tier, seed, NCPU, ["--random", scaled(tier, 30000000, 3000000000)], tag="prod", timeout=10800 if th else 1500))
    res.merge(vfw.run_shards(work, bins["cubic-asan"], prop, tier, seed + 1000003, NCPU, ["--random", scaled(tier, 1000000, 30000000), "--boundary_step", scaled(tier, 16, 4)],
                             tag="asan", timeout=7200 if th else 1500))
    extra = {"boundary_family_exhaustive": res.counters.get("family:boundary_triples_exhaustive_shards", 0) >= NCPU}
    return vfw.finalize(prop, tier, seed, res, t0, C09_RULE, assumptions=ASSUME_COMMON, required=C09_REQUIRED, extra_cov=extra,
                        replay_info={"harness": "cubic.cpp", "how": "./check C09 --replay <file>"})


# ------------------------------------------------------------------------------------------ C12
C12_RULE = ("workloads: NTT/INTT/extendPol configurations up to 2^6 (quick) / 2^8 (thorough) covering on-site and out-of-place bit reversal, zero-fill, blocked scatter and "
            "the inverse last pass (all four reversePermutation branches and three write-back kinds must be seen through the hook), the eight Merkle builders with rows in "
            "{1,2,4,8,64}, parcpy/parSetZero with sizes {0,1,7,64,65,1000,65539} and thread arguments incl. 0, -1, INT_MIN. (a) ThreadSanitizer build linked with the pthread "
            "OpenMP stand-in, team sizes {1,2,3,4,7,16,33}, repeated with seeded start-up delays at region entry: every TSan report is a violation (happens-before analysis: a "
            "conflicting pair is reported whether or not the members overlapped in time). (b) production flags + stand-in in sequential mode: all k! member orders for teams "
            "<= 4 and seeded random orders above; (c) real libgomp with 1,2,3,4,8,16,33 threads; in (a),(b),(c) the output buffers must be bit-identical to the single-member "
            "execution. evaluations = executions compared; distinct = workloads; all non-trivial (each enters >= 1 parallel region with > 1 member).")
C12_REQUIRED = ["mode:threads", "mode:seq", "mode:libgomp", "hook:revperm:branch0", "hook:revperm:branch1", "hook:revperm:branch2", "hook:revperm:branch3",
                "hook:ntt_pass:writeback0", "hook:ntt_pass:writeback1", "hook:ntt_pass:writeback2", "team:1", "team:2", "team:3", "team:4", "team:7", "team:8", "team:16", "team:33",
                "team:nonpositive_thread_argument", "team:delivered_smaller_than_requested", "team:callers_inside_an_OpenMP_team", "limit3:team:33", "onecpu:team:33", "threads:runs_with_injected_startup_delays", "omp_shim:regions_with_permuted_member_order",
                "omp_shim:distinct_team_member_orders(capped_8192_per_process)", "tsan:processes_completed", "coldstart:first_library_use_is_a_team_of_8"] + \
    ["coldstart:" + w for w in ("merkletree_seq", "merkletree_avx", "merkletree_avx512", "merkletree", "merkletree_batch_seq", "merkletree_batch_avx", "merkletree_batch_avx512", "merkletree_batch")] + \
    ["workload:" + w for w in ("NTT", "INTT", "extendPol", "merkletree_seq", "merkletree_avx", "merkletree_avx512", "merkletree", "merkletree_batch_seq",
                               "merkletree_batch_avx", "merkletree_batch_avx512", "merkletree_batch", "parcpy", "parSetZero")]


@reg("C12")
def check_races(prop, tier, seed, work, t0):
    if not vfw.have_avx512():
        raise vfw.Inconclusive("this CPU has no AVX-512F; the AVX-512 Merkle builders cannot be executed")
    libs = ["goldilocks_base_field.cpp", "goldilocks_cubic_extension.cpp", "ntt_goldilocks.cpp", "poseidon_goldilocks.cpp"]
    res = vfw.Results()
    th = tier == "thorough"
    to = 10800 if th else 1500
    bins = vfw.build_many(work, [{"name": "races-prod512", "flavour": "prod512", "srcs": [H("races.cpp")], "libsrcs": libs}])
    shim_ok = True
    try:
        bins.update(vfw.build_many(work, [{"name": "races-" + fl, "flavour": fl, "srcs": [H("races.cpp")], "libsrcs": libs} for fl in ("tsan512", "shim512")]))
        check_shim_symbols(bins["races-tsan512"])
        check_shim_symbols(bins["races-shim512"])
    except vfw.Inconclusive as ex:
        # the library uses an OpenMP construct the stand-in does not provide: the TSan and permuted-order parts cannot run (inconclusive),
        # the libgomp parts below still can and may still find a difference
        shim_ok = False
        res.inconclusive.append("OpenMP stand-in unusable for this tree: " + str(ex)[:600])
    reports, nrep = {}, 0
    if shim_ok:
        logbase = work.path("tsanlog")
        r = vfw.run_shards(work, bins["races-tsan512"], prop, tier, seed, NCPU, ["--mode", "threads", "--nofork"], tag="tsan",
                           env={"TSAN_OPTIONS": "halt_on_error=0:log_path=%s:history_size=4:report_signal_unsafe=0" % logbase}, expect_exit=(0, 66), timeout=to)
        reports, nrep = vfw.parse_tsan_logs(logbase + ".*")
        for key, excerpt in reports.items():
            r.violations.setdefault("C12:" + key, {"report": excerpt, "_run": "tsan"})
        r.counters["tsan:reports_total"] = nrep
        r.counters["tsan:distinct_reports"] = len(reports)
        r.counters["tsan:processes_completed"] = NCPU if r.counters.get("mode:threads", 0) == NCPU else 0
        res.merge(r)
        res.merge(vfw.run_shards(work, bins["races-shim512"], prop, tier, seed, NCPU, ["--mode", "seq", "--nofork"], tag="shim-seq", timeout=to))
    res.merge(vfw.run_shards(work, bins["races-prod512"], prop, tier, seed, 8, ["--mode", "libgomp", "--nofork", "--teamcallers", "1"], tag="libgomp", timeout=to))
    # libgomp delivering fewer threads than requested (thread limit 3)
    r3 = vfw.run_shards(work, bins["races-prod512"], prop, tier, seed, 8, ["--mode", "libgomp", "--nofork", "--thin", "24"], tag="libgomp-limit3", timeout=to,
                        env={"OMP_THREAD_LIMIT": "3"})
    r3.counters = {("limit3:" + k if k.startswith("team:") else k): v for k, v in r3.counters.items()}
    res.merge(r3)
    # all team members time-sliced on ONE cpu: a member that runs ahead of the one it silently depends on becomes the common case
    r1 = vfw.run_shards(work, bins["races-prod512"], prop, tier, seed + 5, 8, ["--mode", "libgomp", "--nofork", "--thin", "12"], tag="libgomp-one-cpu", timeout=to,
                        wrapper=["taskset", "-c", "0-1"], env={"OMP_WAIT_POLICY": "passive"})
    r1.counters = {("onecpu:" + k if k.startswith("team:") else k): v for k, v in r1.counters.items()}
    res.merge(r1)
    extra = {"tsan_reports": nrep, "tsan_distinct_reports": len(reports)}
    return vfw.finalize(prop, tier, seed, res, t0, C12_RULE, assumptions=ASSUME_COMMON + [
        "ThreadSanitizer sees all synchronisation because fork/join are plain pthread_create/pthread_join in the stand-in (stock libgomp is not used under TSan: its barriers are invisible to TSan)",
        "the stand-in implements exactly the runtime symbols the library imports (checked with nm -u at every run)",
        "races hidden inside inline asm cannot be seen (none of the library's asm statements has a memory output)"],
        required=C12_REQUIRED, extra_cov=extra, replay_info={"harness": "races.cpp", "how": "./check C12 --replay <file>"})


# ------------------------------------------------------------------------------------------ C18
import re as _re

MEMKEY = _re.compile(r"(asan-|ubsan-|lsan-|signal-11|signal-7|signal-4|:hang|stray-|input-write|writes-beyond|input-modified|source-modified|noop-has-effect|process:(asan|ubsan|lsan|rc-11|rc-7))")
C18_RULE = ("(1) ASan+UBSan (everything but vla-bound; alloc_dealloc_mismatch, detect_stack_use_after_return) builds, AVX2 and AVX-512, of the monitors of C03-C09, C13, C14, C16, C17, C19 with "
            "exact-size heap buffers and the smallest shapes (one row, one element, zero columns, ncols not divisible by nblock, caller scratch of exactly size*ceil(ncols/nblock)); "
            "each sanitizer report is attributed to one case by the forked-group runner and keyed by kind + top repository frames. (2) object lifetimes: construct / call sequence / destroy, "
            "maxDomain 0 and 1, several objects alive, with LeakSanitizer at exit. (3) valgrind memcheck (origins tracked) on a scalar+AVX2 slice of the same workloads for uninitialised-value "
            "use. (4) fill differential: production-flag builds with -ftrivial-auto-var-init=pattern vs =zero and different MALLOC_PERTURB_ bytes must give identical output digests "
            "(covers AVX-512, which valgrind cannot execute). evaluations = cases executed under a monitor; distinct = distinct case hashes (capped); every case is non-trivial.")
C18_REQUIRED = ["cfg:NTT", "cfg:INTT", "cfg:extendPol", "history:sequences", "family:inverse_constructed_round0", "len:zero", "shape:one_row", "shape:zero_columns",
                "batchInverse:beyond_8MiB_of_temporaries", "matfam:band_directed:full", "lifetime:maxDomain0", "lifetime:maxDomain1", "lifetime:destroyed_unused",
                "lifetime:extendPol_calls", "lifetime:heap_objects_interleaved", "lifetime:process_reached_exit(leak check follows)", "memcheck:processes_clean_exit",
                "fill:buckets_compared", "trials:avx512", "cfg:blocked_uneven", "cfg:caller_buffer", "cfg:size_one"]


@reg("C18")
def check_memsan(prop, tier, seed, work, t0):
    import props_c16
    import props_c17
    if not vfw.have_avx512():
        raise vfw.Inconclusive("this CPU has no AVX-512F; the AVX-512 slices of C18 cannot be executed")
    th = tier == "thorough"
    to = 10800 if th else 1800
    cub = ["goldilocks_base_field.cpp", "goldilocks_cubic_extension.cpp"]
    allib = ["goldilocks_base_field.cpp", "goldilocks_cubic_extension.cpp", "ntt_goldilocks.cpp", "poseidon_goldilocks.cpp"]
    jobs = [
        {"name": "ntt-asan", "flavour": "asan", "srcs": [H("ntt.cpp")], "libsrcs": NTT_LIBS},
        {"name": "ntt-asanshim", "flavour": "asanshim", "srcs": [H("ntt.cpp")], "libsrcs": NTT_LIBS},
        {"name": "pos-asan", "flavour": "asan", "srcs": [H("poseidon.cpp")], "libsrcs": POS_LIBS, "defs": ["-DVERIF_HAVE_FLAT_TABLES=%d" % have_flat_tables()]},
        {"name": "pos-asan512", "flavour": "asan512", "srcs": [H("poseidon.cpp")], "libsrcs": POS_LIBS, "defs": ["-DVERIF_HAVE_FLAT_TABLES=%d" % have_flat_tables()]},
        {"name": "cubic-asan", "flavour": "asan", "srcs": [H("cubic.cpp")], "libsrcs": cub},
        {"name": "vec-asan", "flavour": "asan", "srcs": [H("vecops.cpp")], "libsrcs": ["goldilocks_base_field.cpp"]},
        {"name": "vec-asan512", "flavour": "asan512", "srcs": [H("vecops.cpp")], "libsrcs": ["goldilocks_base_field.cpp"]},
        {"name": "life-asan", "flavour": "asan", "srcs": [H("lifetimes.cpp")], "libsrcs": allib},
        {"name": "ntt-vg", "flavour": "vgshim", "srcs": [H("ntt.cpp")], "libsrcs": NTT_LIBS, "defs": ["-DVERIF_PLAIN_MALLOC"]},
        {"name": "pos-vg", "flavour": "vgshim", "srcs": [H("poseidon.cpp")], "libsrcs": POS_LIBS, "defs": ["-D__SANITIZE_ADDRESS__=1", "-DVERIF_HAVE_FLAT_TABLES=%d" % have_flat_tables()]},
        {"name": "cubic-vg", "flavour": "vg", "srcs": [H("cubic.cpp")], "libsrcs": cub},
    ]
    for ab in ("A", "B"):
        jobs += [{"name": "ntt-fill" + ab, "flavour": "fill" + ab + "shim", "srcs": [H("ntt.cpp")], "libsrcs": NTT_LIBS, "defs": ["-DVERIF_PLAIN_MALLOC"]},
                 {"name": "pos-fill" + ab + "512", "flavour": "fill" + ab + "512", "srcs": [H("poseidon.cpp")], "libsrcs": POS_LIBS, "defs": ["-D__SANITIZE_ADDRESS__=1", "-DVERIF_HAVE_FLAT_TABLES=%d" % have_flat_tables()]},
                 {"name": "cubic-fill" + ab, "flavour": "fill" + ab, "srcs": [H("cubic.cpp")], "libsrcs": cub}]
    wtrials = 20000 if th else 1000
    j16, r16 = props_c16.asan_results(tier, seed, work, wtrials)
    j17, r17 = props_c17.asan_results(tier, seed, work, wtrials)
    bins = vfw.build_many(work, jobs + j16 + j17)
    S = lambda q, t: scaled(tier, q, t)
    runs = [
        ("ntt-asanshim", "C03", seed, ["--smax", S(5, 7), "--dmax", S(11, 14), "--large", S(40, 300), "--thin", S(2, 1), "--d22", "0"], "ntt-asan-C03", NCPU, None),
        ("ntt-asanshim", "C04", seed, ["--smax", S(5, 7), "--dmax", S(11, 14), "--large", S(40, 300), "--thin", S(2, 1), "--d22", "0", "--roundtrips", S(3000, 40000)], "ntt-asan-C04", NCPU, None),
        ("ntt-asanshim", "C05", seed, ["--emax", S(5, 8), "--elarge", S(10, 14), "--large", S(40, 300), "--thin", S(3, 1)], "ntt-asan-C05", NCPU, None),
        ("ntt-asan", "C03", seed + 3, ["--smax", S(4, 6), "--dmax", "10", "--large", S(10, 60), "--thin", S(8, 2), "--d22", "0", "--linearity", "0"], "ntt-asan-libgomp-C03", NCPU, None),
        ("ntt-asan", "C05", seed + 3, ["--emax", S(4, 6), "--elarge", "10", "--large", S(10, 60), "--thin", S(12, 2), "--linearity", "0"], "ntt-asan-libgomp-C05", NCPU, None),
        ("ntt-asan", "C19", seed, ["--sequences", S(1200, 12000)], "ntt-asan-C19", NCPU, None),
        ("pos-asan", "C06", seed, ["--states", S(60000, 2000000)], "pos-asan-C06", NCPU, None),
        ("pos-asan512", "C06", seed + 1, ["--states", S(60000, 2000000)], "pos-asan512-C06", NCPU, None),
        ("pos-asan", "C07", seed, ["--contents", S(8, 120)], "pos-asan-C07", NCPU, None),
        ("pos-asan512", "C07", seed + 1, ["--contents", S(8, 120)], "pos-asan512-C07", NCPU, None),
        ("pos-asan", "C08", seed, ["--thin", S(8, 1)], "pos-asan-C08", NCPU, None),
        ("pos-asan512", "C08", seed + 1, ["--thin", S(6, 1)], "pos-asan512-C08", NCPU, None),
        ("cubic-asan", "C09", seed, ["--random", S(2000000, 60000000), "--boundary_step", S(8, 2)], "cubic-asan", NCPU, None),
        ("vec-asan", "C13", seed, ["--trials", S(200000, 8000000)], "vec-asan-C13", NCPU, None),
        ("vec-asan512", "C14", seed, ["--trials", S(200000, 8000000)], "vec-asan512-C14", NCPU, None),
    ] + r16 + r17
    res = vfw.Results()
    raw = vfw.Results()
    for binname, hprop, sd, args, tag, nsh, env in runs:
        raw.merge(vfw.run_shards(work, bins[binname], hprop, tier, sd, nsh, args, tag=tag, env=env, timeout=to))
    # (2) lifetimes with LeakSanitizer at exit (no fork: the leak report belongs to the whole process)
    leak_env = {"ASAN_OPTIONS": "abort_on_error=0:halt_on_error=1:detect_leaks=1:alloc_dealloc_mismatch=1:detect_stack_use_after_return=1:exitcode=23"}
    raw.merge(vfw.run_shards(work, bins["life-asan"], "C18", tier, seed, NCPU, ["--objects", S(2400, 40000), "--nofork"], tag="lifetimes", env=leak_env, timeout=to))
    # keep memory-safety classes only; functional mismatches seen in these builds belong to the functional checks
    res.evaluations, res.nontrivial_total, res.counters, res.samples, res.hashes = raw.evaluations, raw.nontrivial_total, raw.counters, raw.samples, raw.hashes
    res.inconclusive, res.runs = raw.inconclusive, raw.runs
    dropped = 0
    for key, detail in raw.violations.items():
        if MEMKEY.search(key):
            res.violations["C18:" + key] = detail
            res.violation_counts["C18:" + key] = raw.violation_counts.get(key, 1)
        else:
            dropped += 1
    res.counters["sanitizer_builds:functional_mismatches_left_to_functional_checks"] = dropped
    # (3) valgrind memcheck on the scalar + AVX2 slice
    vg = ["valgrind", "--tool=memcheck", "--error-exitcode=97", "--track-origins=yes", "--leak-check=no", "-q", "--max-threads=2000"]
    vgruns = [
        ("ntt-vg", "C03", ["--smax", S(3, 4), "--dmax", "9", "--large", S(2, 10), "--thin", S(6, 2), "--d22", "0", "--linearity", "0", "--nofork"], "vg-ntt-C03"),
        ("ntt-vg", "C04", ["--smax", S(3, 4), "--dmax", "9", "--large", S(2, 10), "--thin", S(6, 2), "--d22", "0", "--linearity", "0", "--roundtrips", S(200, 2000), "--rt_dmax", "6", "--nofork"], "vg-ntt-C04"),
        ("ntt-vg", "C05", ["--emax", S(3, 5), "--elarge", "8", "--large", S(2, 10), "--thin", S(8, 2), "--linearity", "0", "--nofork"], "vg-ntt-C05"),
        ("ntt-vg", "C19", ["--sequences", S(64, 800), "--hist_smax", "5", "--nofork"], "vg-ntt-C19"),
        ("pos-vg", "C06", ["--states", S(320, 4000), "--nofork"], "vg-pos-C06"),
        ("pos-vg", "C07", ["--contents", S(1, 4), "--nofork"], "vg-pos-C07"),
        ("pos-vg", "C08", ["--thin", S(60, 8), "--nofork"], "vg-pos-C08"),
        ("cubic-vg", "C09", ["--random", S(16000, 400000), "--boundary_step", S(2000, 200), "--isone", "1000", "--nofork"], "vg-cubic"),
    ]
    clean = 0
    for binname, hprop, args, tag in vgruns:
        r = vfw.run_shards(work, bins[binname], hprop, tier, seed, NCPU, args, tag=tag, wrapper=vg, expect_exit=(0, 97), timeout=3600 if th else 600,
                           env={"OMP_NUM_THREADS": "2"})
        clean += sum(1 for c in r.counters if c.startswith("family:") or c.startswith("cfg:")) > 0
        for i in range(NCPU):
            txt = open(work.path("stderr-%s-%d.txt" % (tag, i)), errors="replace").read()
            for key, excerpt in vfw.parse_valgrind(txt).items():
                res.violations.setdefault("C18:" + key, {"memcheck": excerpt, "_run": tag})
        res.evaluations += r.evaluations
        for k, v in r.counters.items():
            res.counters[k] = res.counters.get(k, 0) + v
        res.inconclusive += r.inconclusive
        res.runs += r.runs
        for key, detail in r.violations.items():
            if MEMKEY.search(key) or "process:" in key:
                res.violations["C18:" + key] = detail
    res.counters["memcheck:processes_clean_exit"] = clean
    # (4) fill differential
    fills = [("ntt-fill", "C03", ["--smax", S(4, 6), "--dmax", "10", "--large", S(10, 60), "--thin", S(3, 1), "--d22", "0", "--linearity", "0", "--digest", "1"], ""),
             ("ntt-fill", "C04", ["--smax", S(4, 6), "--dmax", "10", "--large", S(10, 60), "--thin", S(3, 1), "--d22", "0", "--linearity", "0", "--roundtrips", "0", "--digest", "1"], ""),
             ("ntt-fill", "C05", ["--emax", S(4, 7), "--elarge", "10", "--large", S(10, 60), "--thin", S(4, 1), "--linearity", "0", "--digest", "1"], ""),
             ("pos-fill", "C06", ["--states", S(20000, 400000), "--digest", "1"], "512"),
             ("pos-fill", "C07", ["--contents", S(4, 40), "--digest", "1"], "512"),
             ("pos-fill", "C08", ["--thin", S(6, 2), "--digest", "1"], "512"),
             ("cubic-fill", "C09", ["--random", "1000", "--boundary_step", "5000", "--isone", "100", "--digest", "1"], "")]
    buckets = 0
    for stem, hprop, args, sfx in fills:
        dg = {}
        for ab, perturb in (("A", "165"), ("B", "90")):
            r = vfw.run_shards(work, bins[stem + ab + sfx], hprop, tier, seed, NCPU, args, tag="%s%s-%s" % (stem, ab, hprop), timeout=to,
                               env={"MALLOC_PERTURB_": perturb})
            dg[ab] = r.digests
            res.evaluations += r.evaluations
            res.inconclusive += r.inconclusive
            res.runs += r.runs
            for key, detail in r.violations.items():
                if MEMKEY.search(key):
                    res.violations["C18:" + key] = detail
        if not dg["A"] or set(dg["A"]) != set(dg["B"]):
            res.inconclusive.append("fill differential %s %s: digest buckets missing or different sets" % (stem, hprop))
        for b in sorted(set(dg["A"]) & set(dg["B"])):
            buckets += 1
            if dg["A"][b] != dg["B"][b]:
                res.violations["C18:fill-differential:%s:%s:%s" % (stem, hprop, b)] = {
                    "what": "outputs depend on the fill pattern of uninitialised stack/heap memory", "bucket": b,
                    "digest_pattern_fill": dg["A"][b], "digest_zero_fill": dg["B"][b]}
    res.counters["fill:buckets_compared"] = buckets
    return vfw.finalize(prop, tier, seed, res, t0, C18_RULE, assumptions=ASSUME_COMMON + [
        "red-zone tools miss non-adjacent and intra-object overflows and reuse of freed memory beyond the quarantine (the sentinel arenas of C16/C17 and the guard pages of the production builds cover part of that gap)",
        "valgrind 3.19 cannot execute AVX-512: uninitialised reads in AVX-512 code are only seen when they influence an output (fill differential)",
        "vla-bound is excluded from UBSan on purpose (zero-length VLA for zero columns is defined GNU behaviour)"],
        required=C18_REQUIRED, replay_info={"harness": "ntt.cpp poseidon.cpp cubic.cpp vecops.cpp wrappers16/17 lifetimes.cpp", "how": "./check C18 --replay <file>"})


def replay(prop, path, work, seed):
    """Re-run the recorded violation: rebuild and run the same harness on the recorded case only."""
    rp = json.load(open(path))
    t0 = time.time()
    os.environ["VERIF_SEED"] = str(rp.get("seed", seed))
    print("replaying %s (key %s): re-running the %s tier of %s with the recorded seed" % (path, rp.get("key"), rp.get("tier"), prop))
    return REGISTRY[prop](prop, rp.get("tier", "quick"), int(rp.get("seed", seed)), work, t0)


# ------------------------------------------------------------------------------------------ checks living in their own modules
for _m in ("props_c16", "props_c17", "props_c20"):
    try:
        _mod = __import__(_m)
    except ImportError:
        continue
    _mod.register(REGISTRY)
