"""Per-property check definitions (what is built, which workloads run, which path classes must be seen)."""
import json
import os
import time

import vfw
from vfw import VERIF, NCPU

H = lambda n: os.path.join(VERIF, "harness", n)

REGISTRY = {}


def reg(*ids):
    def deco(fn):
        for i in ids:
            REGISTRY[i] = fn
        return fn
    return deco


def scaled(tier, quick, thorough):
    return str(thorough if tier == "thorough" else quick)


ASSUME_COMMON = [
    "the u128 '%' / GMP reference arithmetic is correct (the two are cross-checked against each other on samples)",
    "g++ 12 and the sanitizer runtimes of this sandbox behave as documented",
    "verdict covers executed inputs/configurations only; nothing is claimed about inputs not executed",
]

# ------------------------------------------------------------------------------------------ C01 / C10 / C15
FIELD_RULES = {
    "C01": "operand pairs from: full cross product of the fixed set (boundary values B0 + 8x8 limb lattice), solve-for "
           "families constructed backwards from the intermediate sum/difference/128-bit product pattern, signed sparse pairs, and a mixed "
           "random filler; every pair is run through add/sub/mul/square/neg/inc/dec/mulScalar in returning, reference, operator and all "
           "aliasing forms and compared with the u128 oracle. A pair is non-trivial when the shadow classifier sees at least one "
           "correction path (carry/borrow), a hi-word boundary pattern or a non-canonical operand; distinct = distinct 64-bit hash "
           "of (a,b), counted in a capped set (65536 per process), so distinct_nontrivial is a lower bound.",
    "C10": "non-zero operands from the fixed boundary set, Fibonacci numbers and p-F (quotient-1 Euclid chains), floor(p/k)+-1, 2^k+-1, "
           "non-canonical aliases, plus mixed random operands; inv checked by a*inv(a)=1 and equality with a^(p-2), div by q*b=a, exp by "
           "square-and-multiply in the oracle; refusal of inv/div on 0 and p observed in forked children (marker pipe must stay empty). "
           "Every case is non-trivial (each exercises the full Euclid loop); distinct = hash of operands (capped set).",
    "C15": "uint64/int64/int32 boundary neighbourhoods, all int32 (thorough) or all values within 4096 of every +-2^k plus random (quick), "
           "the +-70000 window around INT32_MIN/MAX as field elements in both representations, integers around 0, +-p, +-2p, +-3p, +-2^64, "
           "+-2^200, +-p^2 as strings in every radix 2..36 in both letter cases and as mpz, random big integers; GMP floor-mod oracle. "
           "non-trivial = negative, non-canonical, out-of-range or non-decimal cases; distinct by hash (capped).",
}
FIELD_REQUIRED = {
    "C01": ["add:no_carry", "add:one_carry", "add:two_carries", "sub:no_borrow", "sub:one_borrow", "sub:two_borrows",
            "mul:carry0_borrow0", "mul:carry0_borrow1", "mul:carry1_borrow0", "mul:carry1_borrow1", "mul:hi_zero",
            "mul:hi_lo_ffffffff", "mul:hi_hi_ffffffff", "inc:plus1", "inc:wrap_to_zero", "inc:via_add", "dec:minus1", "dec:wrap",
            "in:noncanonical_operand", "out:noncanonical_result", "alias:pairs_checked", "oracle:gmp_crosschecks"],
    "C10": ["family:inv_directed", "family:inv_random", "inv:noncanonical_operand", "exp:exponent_zero", "exp:exponent_one",
            "exp:general", "exp:noncanonical_base", "exp:zero_base", "refusal:cases"],
    "C15": ["fromS32:int32_min", "fromS32:negative", "fromS64:negative", "fromS64:beyond_centred_range", "fromString:below_minus_p",
            "fromString:negative", "fromString:above_p", "fromString:non_decimal_radix", "toS32:int32_min", "toS32:int32_max",
            "toS32:out_of_range", "equal:alias_pairs", "out:noncanonical_representation", "toString:radix_checked"],
}


@reg("C01", "C10", "C15")
def check_field(prop, tier, seed, work, t0):
    bins = vfw.build_many(work, [
        {"name": "fieldops-prod", "flavour": "prod", "srcs": [H("fieldops.cpp")], "libsrcs": ["goldilocks_base_field.cpp"]},
        {"name": "fieldops-asan", "flavour": "asan", "srcs": [H("fieldops.cpp")], "libsrcs": ["goldilocks_base_field.cpp"]},
    ])
    res = vfw.Results()
    th = tier == "thorough"
    if prop == "C01":
        a_prod = ["--random", scaled(tier, 200000000, 20000000000), "--sparse", scaled(tier, 4000000, 40000000)]
        a_asan = ["--random", scaled(tier, 4000000, 200000000), "--sparse", scaled(tier, 400000, 4000000)]
    elif prop == "C10":
        a_prod = ["--random", scaled(tier, 8000000, 1000000000)]
        a_asan = ["--random", scaled(tier, 800000, 20000000)]
    else:
        a_prod = ["--random", scaled(tier, 6000000, 100000000), "--strings", scaled(tier, 300000, 6000000)]
        a_asan = ["--random", scaled(tier, 600000, 6000000), "--strings", scaled(tier, 30000, 300000), "--int32", "sampled"]
    res.merge(vfw.run_shards(work, bins["fieldops-prod"], prop, tier, seed, NCPU, a_prod, tag="prod", timeout=7200 if th else 1500))
    res.merge(vfw.run_shards(work, bins["fieldops-asan"], prop, tier, seed + 1000003, NCPU, a_asan, tag="asan", timeout=7200 if th else 1500))
    extra = {}
    if prop == "C15" and th:
        extra["int32_exhaustive"] = res.counters.get("s32_exhaustive:complete_range_shards", 0) == NCPU
    return vfw.finalize(prop, tier, seed, res, t0, FIELD_RULES[prop], assumptions=ASSUME_COMMON, required=FIELD_REQUIRED[prop],
                        extra_cov=extra, replay_info={"harness": "fieldops.cpp", "how": "./check %s --replay <file>" % prop})


def replay(prop, path, work, seed):
    """Re-run the recorded violation: rebuild and run the same harness on the recorded case only."""
    rp = json.load(open(path))
    t0 = time.time()
    os.environ["VERIF_SEED"] = str(rp.get("seed", seed))
    print("replaying %s (key %s): re-running the %s tier of %s with the recorded seed" % (path, rp.get("key"), rp.get("tier"), prop))
    return REGISTRY[prop](prop, rp.get("tier", "quick"), int(rp.get("seed", seed)), work, t0)
