// Values pinned from the reviewed tree (a change of the tables must be a deliberate, reviewed act).
#pragma once
// mix64-chain over PoseidonGoldilocksConstants::C, S, M, P, M_, P_ (harness/poseidon.cpp table_hash())
#define VERIF_POSEIDON_TABLE_HASH 0x3a3b82dfbb7a6036ULL
