// Common harness runtime: argument parsing, seeded RNG, result reporting (JSON lines), forked case
// groups with crash / sanitizer-report / hang attribution.  Header-only, no dependency on /repo.
#pragma once
#include <cstdint>
#include <cstdio>
#include <cstdlib>
#include <cstring>
#include <string>
#include <vector>
#include <thread>
#include <atomic>
#include <thread>
#include <functional>
#include <map>
#include <unordered_set>
#include <functional>
#include <sstream>
#include <unistd.h>
#include <fcntl.h>
#include <signal.h>
#include <sys/mman.h>
#include <sys/wait.h>
#include <sys/stat.h>
#include <time.h>

namespace vf {
// T plain threads (not an OpenMP team: omp_get_thread_num() is 0 in every one of them, so hidden state indexed by the
// OpenMP thread number is shared between them, as it is for any caller that brings its own threads), started together.
template <class F>
static inline void team(int T, F fn)
{
    std::vector<std::thread> th;
    std::atomic<int> arrived(0);
    // released together: every member spins until all T have started (bounded: falls through after ~2 s on a starved machine)
    for (int t = 0; t < T; t++)
        th.emplace_back([&fn, &arrived, T, t]() {
            arrived.fetch_add(1);
            for (long spin = 0; arrived.load() < T && spin < 400000000L; spin++) { }
            fn(t);
        });
    for (auto &x : th) x.join();
}

// ------------------------------------------------------------------------------- RNG
static inline uint64_t splitmix64(uint64_t &x)
{
    uint64_t z = (x += 0x9E3779B97F4A7C15ULL);
    z = (z ^ (z >> 30)) * 0xBF58476D1CE4E5B9ULL;
    z = (z ^ (z >> 27)) * 0x94D049BB133111EBULL;
    return z ^ (z >> 31);
}
static inline uint64_t mix64(uint64_t a, uint64_t b)
{
    uint64_t x = a * 0x9E3779B97F4A7C15ULL ^ (b + 0xD1B54A32D192ED03ULL);
    return splitmix64(x);
}
struct Rng
{
    uint64_t s[4];
    explicit Rng(uint64_t seed = 1) { reseed(seed); }
    void reseed(uint64_t seed)
    {
        uint64_t x = seed;
        for (int i = 0; i < 4; i++) s[i] = splitmix64(x);
    }
    static inline uint64_t rotl(uint64_t x, int k) { return (x << k) | (x >> (64 - k)); }
    inline uint64_t next()
    {
        const uint64_t result = rotl(s[1] * 5, 7) * 9;
        const uint64_t t = s[1] << 17;
        s[2] ^= s[0]; s[3] ^= s[1]; s[1] ^= s[2]; s[0] ^= s[3];
        s[2] ^= t;
        s[3] = rotl(s[3], 45);
        return result;
    }
    inline uint64_t below(uint64_t n) { return n ? next() % n : 0; }
    inline bool coin() { return next() >> 63; }
};

// ------------------------------------------------------------------------------- output digests (fill differential, C18)
// bucket -> wrapping sum of per-case output hashes; order independent, so process structure does not matter
static std::map<std::string, uint64_t> g_digests;
static bool g_digest_on = false;
static inline void digest(const std::string &bucket, uint64_t case_hash, const void *p, size_t nbytes)
{
    if (!g_digest_on) return;
    uint64_t h = case_hash ^ 0xD16E57;
    const uint64_t *q = (const uint64_t *)p;
    for (size_t i = 0; i < nbytes / 8; i++) h = mix64(h, q[i]);
    g_digests[bucket] += h;
}

// ------------------------------------------------------------------------------- args
struct Args
{
    std::string prop, tier = "quick", out, errdir, replay, mode;
    uint64_t seed = 1;
    int shard = 0, nshards = 1;
    bool nofork = false;
    std::map<std::string, std::string> kv;
    std::string get(const std::string &k, const std::string &d = "") const
    {
        auto it = kv.find(k);
        return it == kv.end() ? d : it->second;
    }
    uint64_t getu(const std::string &k, uint64_t d) const
    {
        auto it = kv.find(k);
        return it == kv.end() ? d : strtoull(it->second.c_str(), NULL, 0);
    }
    bool thorough() const { return tier == "thorough"; }
};
static inline Args parse_args(int argc, char **argv)
{
    Args a;
    for (int i = 1; i < argc; i++)
    {
        std::string s = argv[i];
        if (s.rfind("--", 0) != 0) continue;
        std::string k = s.substr(2), v = "1";
        size_t eq = k.find('=');
        if (eq != std::string::npos) { v = k.substr(eq + 1); k = k.substr(0, eq); }
        else if (i + 1 < argc && std::string(argv[i + 1]).rfind("--", 0) != 0) { v = argv[++i]; }
        a.kv[k] = v;
    }
    a.prop = a.get("prop");
    a.tier = a.get("tier", "quick");
    a.out = a.get("out");
    a.errdir = a.get("errdir");
    a.replay = a.get("replay");
    a.mode = a.get("mode");
    a.seed = a.getu("seed", 1);
    a.nofork = a.kv.count("nofork") > 0;
    g_digest_on = a.kv.count("digest") > 0;
    std::string sh = a.get("shard", "0/1");
    sscanf(sh.c_str(), "%d/%d", &a.shard, &a.nshards);
    if (a.nshards < 1) a.nshards = 1;
    return a;
}

// ------------------------------------------------------------------------------- JSON helpers
static inline std::string jesc(const std::string &s)
{
    std::string o;
    for (unsigned char c : s)
    {
        if (c == '"' || c == '\\') { o += '\\'; o += (char)c; }
        else if (c == '\n') o += "\\n";
        else if (c < 0x20) { char b[8]; snprintf(b, sizeof b, "\\u%04x", c); o += b; }
        else o += (char)c;
    }
    return o;
}
static inline std::string jstr(const std::string &s) { return "\"" + jesc(s) + "\""; }
static inline std::string hex64(uint64_t v)
{
    char b[24];
    snprintf(b, sizeof b, "0x%016llx", (unsigned long long)v);
    return b;
}
static inline std::string jhex(uint64_t v) { return "\"" + hex64(v) + "\""; }
static inline std::string u2s(uint64_t v) { return std::to_string((unsigned long long)v); }
// small builder: J().kv("a",1).ks("b","x").str()
struct J
{
    std::string s;
    bool first = true;
    J() { s = "{"; }
    J &raw(const std::string &k, const std::string &v)
    {
        if (!first) s += ",";
        first = false;
        s += jstr(k) + ":" + v;
        return *this;
    }
    J &u(const std::string &k, uint64_t v) { return raw(k, u2s(v)); }
    J &i(const std::string &k, int64_t v) { return raw(k, std::to_string((long long)v)); }
    J &h(const std::string &k, uint64_t v) { return raw(k, jhex(v)); }
    J &str(const std::string &k, const std::string &v) { return raw(k, jstr(v)); }
    J &b(const std::string &k, bool v) { return raw(k, v ? "true" : "false"); }
    std::string done() const { return s + "}"; }
};
static inline std::string jarr_hex(const uint64_t *v, size_t n)
{
    std::string s = "[";
    for (size_t i = 0; i < n; i++) { if (i) s += ","; s += jhex(v[i]); }
    return s + "]";
}

// ------------------------------------------------------------------------------- report
// Every line written to --out is one JSON object.  Lines are written with a single write() on an
// O_APPEND descriptor so that parent and forked children can share the file.
class Report
{
  public:
    std::string prop, out;
    int fd = -1;
    uint64_t evaluations = 0;
    uint64_t nontrivial_total = 0;
    std::map<std::string, uint64_t> counters;   // path classes, hooks, families ...
    std::unordered_set<uint64_t> nt_hashes;       // distinct non-trivial case hashes (capped)
    size_t nt_cap = 65536;
    std::map<std::string, std::vector<std::string>> samples; // family -> few JSON samples
    size_t sample_cap = 3;
    std::map<std::string, uint64_t> viol_seen;  // key -> count (only the first is written in full)
    size_t viol_cap = 200;
    double t0;

    static double now()
    {
        struct timespec ts;
        clock_gettime(CLOCK_MONOTONIC, &ts);
        return ts.tv_sec + ts.tv_nsec * 1e-9;
    }
    void open(const std::string &prop_, const std::string &out_)
    {
        prop = prop_;
        out = out_;
        t0 = now();
        if (!out.empty()) fd = ::open(out.c_str(), O_WRONLY | O_CREAT | O_APPEND, 0644);
        if (fd < 0) fd = 1;
    }
    void line(const std::string &s)
    {
        std::string l = s + "\n";
        ssize_t r = ::write(fd, l.data(), l.size());
        (void)r;
    }
    inline uint64_t &counter(const std::string &name) { return counters[name]; }
    inline void cls(const std::string &name, uint64_t n = 1) { counters[name] += n; }
    inline void nontrivial(uint64_t h)
    {
        nontrivial_total++;
        if (nt_hashes.size() < nt_cap) nt_hashes.insert(h);
    }
    void sample(const std::string &family, const std::string &json)
    {
        auto &v = samples[family];
        if (v.size() < sample_cap) v.push_back(json);
    }
    // a violation: key is the stable identity (matched against known_findings), detail a JSON object
    void violation(const std::string &key, const std::string &detail_json)
    {
        uint64_t &n = viol_seen[key];
        n++;
        if (n == 1 && viol_seen.size() <= viol_cap)
            line(J().str("type", "violation").str("prop", prop).str("key", key).raw("detail", detail_json).done());
    }
    void note(const std::string &kind, const std::string &detail_json)
    {
        line(J().str("type", kind).str("prop", prop).raw("detail", detail_json).done());
    }
    // partial summary; the driver sums all summaries of all shards and children
    void finish()
    {
        std::string c = "{";
        bool f = true;
        for (auto &kv : counters)
        {
            if (!f) c += ",";
            f = false;
            c += jstr(kv.first) + ":" + u2s(kv.second);
        }
        c += "}";
        std::string sm = "{";
        f = true;
        for (auto &kv : samples)
        {
            if (!f) sm += ",";
            f = false;
            sm += jstr(kv.first) + ":[";
            for (size_t i = 0; i < kv.second.size(); i++) { if (i) sm += ","; sm += kv.second[i]; }
            sm += "]";
        }
        sm += "}";
        std::string hs = "[";
        f = true;
        for (uint64_t h : nt_hashes)
        {
            if (!f) hs += ",";
            f = false;
            hs += u2s(h);
        }
        hs += "]";
        std::string vc = "{";
        f = true;
        for (auto &kv : viol_seen)
        {
            if (!f) vc += ",";
            f = false;
            vc += jstr(kv.first) + ":" + u2s(kv.second);
        }
        vc += "}";
        std::string dg = "{";
        f = true;
        for (auto &kv : g_digests)
        {
            if (!f) dg += ",";
            f = false;
            dg += jstr(kv.first) + ":" + u2s(kv.second);
        }
        dg += "}";
        g_digests.clear();
        line(J().str("type", "summary").str("prop", prop).u("evaluations", evaluations).u("nontrivial_total", nontrivial_total)
                 .raw("counters", c).raw("samples", sm).raw("nt_hashes", hs).raw("violation_counts", vc).raw("digests", dg)
                 .raw("wall_s", std::to_string(now() - t0)).done());
        evaluations = 0; nontrivial_total = 0; counters.clear(); samples.clear(); nt_hashes.clear(); viol_seen.clear();
        t0 = now();
    }
};

// ------------------------------------------------------------------------------- forked groups
struct Slot
{
    volatile uint64_t index;      // case currently executing
    volatile double started;      // monotonic start time of that case
    volatile int active;
    char desc[3800];
};

static inline std::string read_tail(const std::string &path, size_t maxb = 16384)
{
    std::string s;
    FILE *f = fopen(path.c_str(), "rb");
    if (!f) return s;
    fseek(f, 0, SEEK_END);
    long n = ftell(f);
    long st = n > (long)maxb ? n - (long)maxb : 0;
    fseek(f, st, SEEK_SET);
    s.resize(n - st);
    size_t r = fread(&s[0], 1, s.size(), f);
    s.resize(r);
    fclose(f);
    return s;
}

// classify what a dead child printed: sanitizer kind and the first frames inside the repository sources
static inline std::string classify_stderr(const std::string &err)
{
    std::string kind;
    size_t p;
    if ((p = err.find("ERROR: AddressSanitizer: ")) != std::string::npos)
    {
        size_t e = err.find_first_of(" \n", p + 25);
        kind = "asan-" + err.substr(p + 25, e - (p + 25));
    }
    else if ((p = err.find("runtime error: ")) != std::string::npos)
    {
        size_t e = err.find('\n', p);
        std::string msg = err.substr(p + 15, e - (p + 15));
        // strip numbers to make the key stable
        std::string m2;
        for (char ch : msg) m2 += (ch >= '0' && ch <= '9') ? '#' : ch;
        // collapse runs of '#'
        std::string m3;
        for (char ch : m2) if (!(ch == '#' && !m3.empty() && m3.back() == '#')) m3 += ch;
        kind = "ubsan-" + m3.substr(0, 60);
    }
    else if ((p = err.find("ERROR: LeakSanitizer")) != std::string::npos) kind = "lsan-leak";
    else if (err.find("Assertion") != std::string::npos && err.find("failed") != std::string::npos)
    {
        p = err.find("Assertion");
        size_t e = err.find('\n', p);
        kind = "assert-" + err.substr(p + 10, std::min<size_t>(e - p - 10, 50));
    }
    if (kind.empty()) return kind;
    // frames: lines like "#1 0x... in NAME /path/src/file.cpp:123"
    std::string frames;
    int nf = 0;
    size_t pos = 0;
    while (nf < 2 && (pos = err.find(" in ", pos)) != std::string::npos)
    {
        size_t e = err.find('\n', pos);
        std::string ln = err.substr(pos + 4, e - pos - 4);
        pos = e == std::string::npos ? err.size() : e;
        if (ln.find("/src/") == std::string::npos) continue;
        std::string fn = ln.substr(0, ln.find_first_of(" ("));
        frames += (nf ? "<" : "") + fn;
        nf++;
    }
    if (!frames.empty()) kind += "@" + frames;
    return kind;
}

// optional hooks run inside every forked child: at start, and just before its summary is written
static std::function<void()> g_child_start;
static std::function<void(Report &)> g_child_finish;

struct ForkCfg
{
    size_t group = 64;          // cases per child
    double case_timeout = 300;  // seconds; generous wall-clock watchdog
    bool nofork = false;
    std::string errdir;         // where children's stderr is captured
    std::string family;         // used in keys
    bool stop_on_hang = true;   // after a confirmed hang the rest of this family in this shard is skipped (reported as a counter)
};

// Run cases [0,n) of one family.  body(i, rep) executes case i and reports into rep.
// desc(i) returns a short stable descriptor of the case (used in violation keys / replays).
// keyfn(i) returns the violation-key stem for a crash of case i (configuration class, not data).
static inline void run_forked(Report &rep, uint64_t n, const ForkCfg &cfg,
                              const std::function<std::string(uint64_t)> &desc,
                              const std::function<std::string(uint64_t)> &keyfn,
                              const std::function<void(uint64_t, Report &)> &body,
                              const std::function<bool(uint64_t)> &mine = nullptr)
{
    if (cfg.nofork)
    {
        for (uint64_t i = 0; i < n; i++)
        {
            if (mine && !mine(i)) continue;
            body(i, rep);
        }
        return;
    }
    Slot *slot = (Slot *)mmap(NULL, sizeof(Slot), PROT_READ | PROT_WRITE, MAP_SHARED | MAP_ANONYMOUS, -1, 0);
    static int seq = 0;
    std::vector<uint64_t> todo;
    for (uint64_t i = 0; i < n; i++)
        if (!mine || mine(i)) todo.push_back(i);
    size_t pos = 0;
    std::map<uint64_t, int> timeouts; // case -> number of timeouts
    while (pos < todo.size())
    {
        size_t end = std::min(todo.size(), pos + cfg.group);
        // a case that timed out before is re-run alone
        if (timeouts.count(todo[pos])) end = pos + 1;
        std::string errfile;
        if (!cfg.errdir.empty())
            errfile = cfg.errdir + "/err." + std::to_string(getpid()) + "." + std::to_string(seq++) + ".txt";
        slot->active = 0;
        slot->index = todo[pos];
        fflush(NULL);
        pid_t pid = fork();
        if (pid == 0)
        {
            if (!errfile.empty())
            {
                int efd = ::open(errfile.c_str(), O_WRONLY | O_CREAT | O_TRUNC, 0644);
                if (efd >= 0) { dup2(efd, 2); close(efd); }
            }
            Report crep;
            crep.prop = rep.prop; crep.out = rep.out; crep.fd = rep.fd; crep.t0 = Report::now();
            crep.nt_cap = std::min<size_t>(rep.nt_cap, 2048); crep.sample_cap = rep.sample_cap;
            g_digests.clear();
            if (g_child_start) g_child_start();
            for (size_t k = pos; k < end; k++)
            {
                uint64_t i = todo[k];
                std::string d = desc(i);
                strncpy(slot->desc, d.c_str(), sizeof(slot->desc) - 1);
                slot->desc[sizeof(slot->desc) - 1] = 0;
                slot->index = i;
                slot->started = Report::now();
                slot->active = 1;
                body(i, crep);
                slot->active = 0;
            }
            if (g_child_finish) g_child_finish(crep);
            crep.finish();
            fflush(NULL);
            _exit(0);
        }
        // parent: supervise
        int status = 0;
        bool timed_out = false;
        for (;;)
        {
            pid_t r = waitpid(pid, &status, WNOHANG);
            if (r == pid) break;
            if (slot->active && Report::now() - slot->started > cfg.case_timeout)
            {
                kill(pid, SIGKILL);
                waitpid(pid, &status, 0);
                timed_out = true;
                break;
            }
            usleep(2000);
        }
        bool clean = !timed_out && WIFEXITED(status) && WEXITSTATUS(status) == 0;
        if (clean)
        {
            if (!errfile.empty()) unlink(errfile.c_str());
            pos = end;
            continue;
        }
        // find the case that was executing
        uint64_t bad = slot->index;
        size_t badpos = pos;
        for (size_t k = pos; k < end; k++) if (todo[k] == bad) { badpos = k; break; }
        std::string d = slot->desc;
        if (timed_out)
        {
            int &t = timeouts[bad];
            t++;
            if (t >= 2)
            {
                rep.violation(keyfn(bad) + ":hang", J().str("family", cfg.family).u("index", bad).raw("case", d.empty() ? "{}" : d).str("what", "case exceeded the watchdog twice, second time alone in a fresh process").done());
                pos = badpos + 1;
                if (cfg.stop_on_hang)
                {
                    rep.cls("watchdog:cases_skipped_after_confirmed_hang", todo.size() - pos);
                    pos = todo.size();
                }
            }
            else
            {
                rep.cls("watchdog_first_timeout");
                pos = badpos; // re-run alone
            }
            if (!errfile.empty()) unlink(errfile.c_str());
            continue;
        }
        std::string how;
        if (WIFSIGNALED(status)) how = std::string("signal-") + std::to_string(WTERMSIG(status));
        else how = "exit-" + std::to_string(WEXITSTATUS(status));
        std::string err = errfile.empty() ? "" : read_tail(errfile);
        std::string kind = classify_stderr(err);
        if (kind.empty()) kind = how;
        std::string tail = err.size() > 1500 ? err.substr(0, 1500) : err;
        rep.violation(keyfn(bad) + ":" + kind,
                      J().str("family", cfg.family).u("index", bad).raw("case", d.empty() ? "{}" : d).str("died", how).str("stderr", tail).done());
        if (!errfile.empty()) unlink(errfile.c_str());
        pos = badpos + 1;
    }
    munmap(slot, sizeof(Slot));
}

} // namespace vf
