// pthread stand-in for the six libgomp entry points the library imports (checked with nm -u by the
// driver): GOMP_parallel, omp_get_thread_num, omp_get_num_threads, omp_get_max_threads,
// omp_set_num_threads, omp_set_dynamic.
//
// Why: ThreadSanitizer cannot see libgomp's barriers (dozens of false races); with this stand-in
// fork/join are plain pthread_create/pthread_join which TSan understands.  It also makes the schedule
// controllable: team members can be run sequentially in any permuted order and any team size can be
// delivered, which real libgomp never lets a test choose.
//
// Modes (env VERIF_OMP_MODE, or verif_omp_set_mode()):
//   threads      one pthread per team member (member 0 is the caller); optional seeded random delay at
//                member start (VERIF_OMP_DELAY_US > 0) – region entry/exit are the only suspension points
//   seq          members run one after another on the calling thread, in a seeded random permutation per
//                region (VERIF_OMP_PERM_SEED), identity permutation when the seed is 0
// VERIF_OMP_TEAM=k forces the delivered team size to k regardless of the request.
#include <pthread.h>
#include <stdint.h>
#include <stdlib.h>
#include <string.h>
#include <unistd.h>
#include <vector>
#include <algorithm>

namespace {
int g_default_threads = 0; // nthreads-var
int g_mode = -1;           // 0 threads, 1 seq
uint64_t g_perm_seed = 0;
int64_t g_perm_index = -1; // >= 0: every region uses permutation number (index mod team!) in lexicographic order
int g_force_team = 0;
int g_delay_us = 0;
uint64_t g_regions = 0, g_members = 0, g_team_mask = 0, g_order_hash = 0, g_nonidentity = 0;
uint64_t g_team_hist[65];
std::vector<uint64_t> g_orders; // distinct (team, member order) hashes seen, capped

__thread int t_num = 0;
__thread int t_team = 1;
__thread int t_depth = 0;
__thread pthread_barrier_t *t_barrier = NULL; // team barrier (threads mode)
pthread_mutex_t g_critical = PTHREAD_MUTEX_INITIALIZER;
uint64_t g_barriers = 0;

uint64_t sm(uint64_t &x)
{
    uint64_t z = (x += 0x9E3779B97F4A7C15ULL);
    z = (z ^ (z >> 30)) * 0xBF58476D1CE4E5B9ULL;
    z = (z ^ (z >> 27)) * 0x94D049BB133111EBULL;
    return z ^ (z >> 31);
}
void init()
{
    if (g_mode >= 0) return;
    const char *m = getenv("VERIF_OMP_MODE");
    g_mode = (m && !strcmp(m, "seq")) ? 1 : 0;
    const char *s = getenv("VERIF_OMP_PERM_SEED");
    if (s) g_perm_seed = strtoull(s, NULL, 0);
    const char *t = getenv("VERIF_OMP_TEAM");
    if (t) g_force_team = atoi(t);
    const char *d = getenv("VERIF_OMP_DELAY_US");
    if (d) g_delay_us = atoi(d);
    const char *n = getenv("VERIF_OMP_DEFAULT");
    if (g_default_threads == 0) g_default_threads = n ? atoi(n) : 4;
}
struct Start
{
    void (*fn)(void *);
    void *data;
    int num, team;
    uint64_t delay_seed;
    pthread_barrier_t *barrier;
};
void *member(void *p)
{
    Start *s = (Start *)p;
    t_num = s->num;
    t_team = s->team;
    t_depth = 1;
    t_barrier = s->barrier;
    if (g_delay_us > 0)
    {
        uint64_t x = s->delay_seed;
        usleep((useconds_t)(sm(x) % (uint64_t)g_delay_us));
    }
    s->fn(s->data);
    t_depth = 0;
    return NULL;
}
} // namespace

extern "C" {

void verif_omp_set_mode(int mode, uint64_t perm_seed, int force_team)
{
    init();
    g_mode = mode;
    g_perm_seed = perm_seed;
    g_force_team = force_team;
    g_perm_index = -1;
}
// sequential mode with one fixed member order for every region: the index-th permutation (factoradic, mod team!)
void verif_omp_set_perm_index(int64_t index, int force_team)
{
    init();
    g_mode = 1;
    g_perm_index = index;
    g_force_team = force_team;
}
void verif_omp_set_delay(int delay_us)
{
    init();
    g_delay_us = delay_us;
}
// stats: regions entered, members run, bit mask of team sizes (bit min(size,63)), xor-hash of member orders, regions with non-identity order
void verif_omp_stats(uint64_t out[5])
{
    out[0] = g_regions; out[1] = g_members; out[2] = g_team_mask; out[3] = g_order_hash; out[4] = g_nonidentity;
}
int verif_omp_is_shim(void) { return 1; }
uint64_t verif_omp_distinct_orders(void) { return (uint64_t)g_orders.size(); }
void verif_omp_reset_orders(void) { g_orders.clear(); }

void GOMP_parallel(void (*fn)(void *), void *data, unsigned num_threads, unsigned flags)
{
    (void)flags;
    init();
    if (t_depth > 0)
    { // nested region: team of one (dynamic adjustment is off, nesting is disabled by default in libgomp too)
        int sn = t_num, st = t_team;
        t_num = 0; t_team = 1; t_depth++;
        fn(data);
        t_depth--; t_num = sn; t_team = st;
        return;
    }
    int team = num_threads ? (int)num_threads : g_default_threads;
    if (g_force_team > 0) team = g_force_team;
    if (team < 1) team = 1;
    g_regions++;
    g_members += (uint64_t)team;
    g_team_mask |= 1ULL << (team > 63 ? 63 : team);
    if (g_mode == 1)
    {
        std::vector<int> order(team);
        for (int i = 0; i < team; i++) order[i] = i;
        if (g_perm_index >= 0)
        {
            // factoradic decoding of the permutation index
            std::vector<int> pool(order);
            uint64_t idx = (uint64_t)g_perm_index;
            uint64_t fact = 1;
            int lim = team > 20 ? 20 : team;
            for (int i = 2; i <= lim; i++) fact *= (uint64_t)i;
            idx %= fact;
            for (int i = 0; i < team; i++)
            {
                int rem = team - i;
                uint64_t f = 1;
                for (int q = 2; q < (rem > 20 ? 21 : rem); q++) f *= (uint64_t)q; // (rem-1)!
                uint64_t pos = rem > 20 ? 0 : idx / f;
                if (rem <= 20) idx %= f;
                order[i] = pool[pos];
                pool.erase(pool.begin() + (long)pos);
            }
        }
        else if (g_perm_seed)
        {
            uint64_t x = g_perm_seed ^ (g_regions * 0x9E3779B97F4A7C15ULL);
            for (int i = team - 1; i > 0; i--)
            {
                int j = (int)(sm(x) % (uint64_t)(i + 1));
                std::swap(order[i], order[j]);
            }
        }
        uint64_t h = 1469598103934665603ULL;
        bool ident = true;
        for (int i = 0; i < team; i++) { h = (h ^ (uint64_t)order[i]) * 1099511628211ULL; if (order[i] != i) ident = false; }
        g_order_hash ^= h * (uint64_t)(team + 1);
        {
            uint64_t hh = h * 31 + (uint64_t)team;
            if (g_orders.size() < 8192 && std::find(g_orders.begin(), g_orders.end(), hh) == g_orders.end()) g_orders.push_back(hh);
        }
        if (!ident) g_nonidentity++;
        for (int i = 0; i < team; i++)
        {
            t_num = order[i]; t_team = team; t_depth = 1;
            fn(data);
        }
        t_num = 0; t_team = 1; t_depth = 0;
        return;
    }
    // threads mode
    std::vector<pthread_t> th(team);
    std::vector<Start> st(team);
    pthread_barrier_t barrier;
    pthread_barrier_init(&barrier, NULL, (unsigned)team);
    for (int i = 0; i < team; i++)
    {
        st[i].fn = fn; st[i].data = data; st[i].num = i; st[i].team = team; st[i].barrier = &barrier;
        st[i].delay_seed = g_perm_seed ^ (g_regions * 1315423911ULL) ^ (uint64_t)i * 2654435761ULL;
    }
    for (int i = 1; i < team; i++)
    {
        if (pthread_create(&th[i], NULL, member, &st[i]) != 0)
        { // cannot create more threads: regions without barriers could run the member here, but a barrier would deadlock: give up (inconclusive)
            static const char m[] = "verif gomp_shim: pthread_create failed\n";
            ssize_t w = write(2, m, sizeof m - 1);
            (void)w;
            _exit(86);
        }
    }
    member(&st[0]);
    for (int i = 1; i < team; i++)
        if (st[i].fn) pthread_join(th[i], NULL);
    pthread_barrier_destroy(&barrier);
    t_num = 0; t_team = 1; t_depth = 0; t_barrier = NULL;
}

// constructs a changed library might start to use: barrier (threads mode only), critical, single
void GOMP_barrier(void)
{
    if (t_depth == 0 || t_team == 1) return;
    if (g_mode == 1 || t_barrier == NULL)
    {
        static const char m[] = "verif gomp_shim: a barrier inside a parallel region cannot be executed with sequential team members (inconclusive)\n";
        ssize_t w = write(2, m, sizeof m - 1);
        (void)w;
        _exit(86);
    }
    __sync_fetch_and_add(&g_barriers, 1);
    pthread_barrier_wait(t_barrier);
}
void GOMP_critical_start(void) { pthread_mutex_lock(&g_critical); }
void GOMP_critical_end(void) { pthread_mutex_unlock(&g_critical); }
bool GOMP_single_start(void) { return (t_depth > 0 ? t_num : 0) == 0; }

int omp_get_thread_num(void) { return t_depth > 0 ? t_num : 0; }
int omp_in_parallel(void) { return t_depth > 0 && t_team > 1; }
int omp_get_num_threads(void) { return t_depth > 0 ? t_team : 1; }
int omp_get_max_threads(void)
{
    init();
    return g_default_threads;
}
void omp_set_num_threads(int n)
{
    init();
    if (n > 0) g_default_threads = n;
}
void omp_set_dynamic(int) {}
}
