"""C16: every batched / AVX2 / AVX-512 cubic-extension overload equals the scalar operation (lane by lane) and
touches only the positions its strides designate.  Table + thunks: tools/gen_overloads16.py; driver: harness/wrappers16.cpp."""
import os
import sys
import time

import vfw
from vfw import VERIF, NCPU

sys.path.insert(0, os.path.join(VERIF, "tools"))
import gen_overloads16 as g16  # noqa: E402

H = lambda n: os.path.join(VERIF, "harness", n)
N_THUNK_TUS = 4
LIBSRCS = ["goldilocks_base_field.cpp", "goldilocks_cubic_extension.cpp"]

# trials per overload and flavour
TRIALS = {
    "quick": {"prod": 2000, "asan": 2000, "prod512": 2000, "asan512": 2000},
    "thorough": {"prod": 3000000, "asan": 1000000, "prod512": 3000000, "asan512": 1000000},
}
SEED_OFFSET = {"prod": 0, "asan": 1000003, "prod512": 2000003, "asan512": 3000017}

RULE = (
    "One table entry per overload of the add*/sub*/mul* _batch/_avx/_avx512 families and of copy_batch/copy_avx/copy_avx512, "
    "parsed from the current goldilocks_cubic_extension.hpp by tools/gen_overloads16.py (the run is inconclusive if the parsed set "
    "differs from the committed tools/overloads_c16.json or a declaration does not fit the classification rule). Per overload and "
    "trial: memory operands are placed in separate sentinel arenas at a random base cell, per-lane positions from the uniform stride "
    "sets {0,1,2,3,4,7,13,64,1000} (inputs) / {3,4,7,13,64,1000} (outputs; overlapping outputs are excluded) cycled systematically, "
    "or from index arrays (random with repeats, permuted multiples, all equal, identity, reversed; outputs: permuted, random gaps >= 3, "
    "identity, reversed); register operands are planar; values from G64 (5/8 of the trials), canonical-only, an extremes set, and a "
    "non-canonical band; challenge sums are computed from b by the oracle (sometimes in the +p representation). Every lane and "
    "coefficient of the result is compared (mod p) with the schoolbook oracle x^3 = x+1 on the k-th designated operands (base elements "
    "embedded as (v,0,0)); all undesignated cells of all arenas must keep the sentinel, input cells / input registers / index arrays "
    "their values; the call is repeated with another sentinel and must give bit-identical outputs. A trial is non-trivial when an "
    "operand cell is non-canonical or a non-default stride / index array is used; distinct = hash of (overload, trial number), capped set.")

ASSUMPTIONS = [
    "the u128 '%' reference arithmetic (oracle.hpp, schoolbook product reduced by x^3 = x + 1) is correct",
    "expected behaviour is the naming convention of the header (digits = operand kinds, c = constant, parameter names bind strides), "
    "as encoded by the rule in tools/gen_overloads16.py; definitions are not consulted",
    "operands of different parameters never alias each other or the output (each lives in its own arena); aliasing is not exercised",
    "stray accesses are observed inside the arenas (8..80 cells of slack around every operand) and, beyond them, by ASan red zones only",
    "g++ 12 and the sanitizer runtimes of this sandbox behave as documented",
    "verdict covers executed inputs/configurations only; nothing is claimed about inputs not executed",
]

MANIFEST_TEXT = {
    "C16": ("wrappers16",
            "generated overload table + one static_cast-selected thunk per overload, sentinel arenas for every memory operand, "
            "schoolbook extension oracle per lane, two-sentinel stray-read differential, prod/prod512 and ASan+UBSan builds",
            "All 159 overloads of the table (re-derived from the current header at every run; any difference is inconclusive) are "
            "executed 2*10^3 (quick) / 10^6 (thorough; 5*10^5 under ASan) times per build flavour on operands in every 64-bit "
            "representation with every stride of the fixed sets and five kinds of index arrays; every lane/coefficient is compared with "
            "the scalar extension operation, every undesignated arena cell, input cell, input register and index array must be "
            "unchanged, and outputs must not depend on the sentinel. Held on the executed trials only.",
            "expected semantics come from the header's naming convention, never from the definitions; aliasing between operands is not exercised"),
}


def check_c16(prop, tier, seed, work, t0):
    res = vfw.Results()
    rinfo = {"harness": "wrappers16.cpp + generated thunks", "how": "./check C16 --replay <file>; single trial: see detail.replay"}

    def done(required=(), extra=None):
        return vfw.finalize(prop, tier, seed, res, t0, RULE, assumptions=ASSUMPTIONS, required=required, extra_cov=extra, replay_info=rinfo)

    # 1. the header must still be what the committed table describes
    entries, msgs = g16.consistency(vfw.REPO)
    if msgs:
        res.inconclusive += ["overload table: " + m for m in msgs[:40]]
        if len(msgs) > 40:
            res.inconclusive.append("overload table: ... %d more differences" % (len(msgs) - 40))
        return done(extra={"table_overloads": len(entries)})
    n4 = [e for e in entries if e["lanes"] == 4]
    n8 = [e for e in entries if e["lanes"] == 8]
    vfw.log("[C16] %d overloads (%d 4-lane, %d AVX-512) match the committed table" % (len(entries), len(n4), len(n8)))
    flavours = ["prod", "asan"]
    if vfw.have_avx512():
        flavours += ["prod512", "asan512"]
    else:
        res.inconclusive.append("CPU without AVX-512F: the %d _avx512 overloads cannot be executed" % len(n8))

    # 2. thunks from the freshly parsed entries, builds
    thunks = g16.emit(entries, work.path("gen"), N_THUNK_TUS)
    jobs = [{"name": "wrappers16-" + fl, "flavour": fl, "srcs": [H("wrappers16.cpp")] + thunks, "libsrcs": LIBSRCS,
             "defs": ["-I" + os.path.join(VERIF, "harness")]} for fl in flavours]
    try:
        bins = vfw.build_many(work, jobs)
    except vfw.Inconclusive as ex:
        res.inconclusive.append(str(ex)[:3000])
        return done(extra={"table_overloads": len(entries)})

    # 3. run
    th = tier == "thorough"
    planned = {}
    registered_expect = 0
    for fl in flavours:
        n = TRIALS[tier][fl]
        ovs = entries if fl.endswith("512") else n4
        registered_expect += len(ovs)
        for e in ovs:
            planned[e["id"]] = planned.get(e["id"], 0) + n
        res.merge(vfw.run_shards(work, bins["wrappers16-" + fl], prop, tier, seed + SEED_OFFSET[fl], NCPU, ["--trials", str(n)],
                                 tag=fl, timeout=7200 if th else 900))

    # 4. coverage requirements: every overload of the table, every family, every stride / index kind
    required = ["ov:" + e["id"] for e in entries if e["id"] in planned]
    required += sorted({"family:" + e["family"] for e in entries if e["id"] in planned})
    required += ["in_stride:%d" % s for s in (0, 1, 2, 3, 4, 7, 13, 64, 1000)] + ["out_stride:%d" % s for s in (3, 4, 7, 13, 64, 1000)]
    required += ["in_stride:default", "out_stride:default", "in_stride:uint32_parameter",
                 "in_index:random_with_repeats", "in_index:permuted", "in_index:all_equal", "in_index:identity", "in_index:reversed",
                 "out_index:permuted", "out_index:random_gaps", "out_index:identity", "out_index:reversed",
                 "in:planar_registers", "out:planar_registers", "in:base_register", "in:constant_in_memory", "in:constant_by_value",
                 "in:constant_broadcast_registers", "in:noncanonical_cells", "in:overlapping_lanes",
                 "sums:memory", "sums:registers", "sums:noncanonical_representation",
                 "values:g64", "values:canonical_only", "values:extremes", "values:noncanonical_band",
                 "in:both_operands_at_the_same_address", "forms:third_call_same_addresses_changed_contents", "mode:concurrent_callers_trials",
                 "forms:result_register_triple_is_an_input_triple"]
    if res.counters.get("registered_overloads", 0) != registered_expect:
        res.inconclusive.append("the binaries registered %d overloads, the table demands %d" % (res.counters.get("registered_overloads", 0), registered_expect))
    short = [i for i, n in sorted(planned.items()) if res.counters.get("ov:" + i, 0) < n]
    if short:
        res.inconclusive.append("fewer trials than planned for %d overloads (a child died or timed out): %s" % (len(short), ", ".join(short[:12])))
    fam_tab, fam_run = {}, {}
    for e in entries:
        fam_tab[e["family"]] = fam_tab.get(e["family"], 0) + 1
        if res.counters.get("ov:" + e["id"], 0) > 0:
            fam_run[e["family"]] = fam_run.get(e["family"], 0) + 1
    extra = {
        "table_overloads": len(entries),
        "overloads_exercised": sum(fam_run.values()),
        "overloads_per_family_table": dict(sorted(fam_tab.items())),
        "overloads_per_family_exercised": dict(sorted(fam_run.items())),
        "trials_per_overload_per_flavour": {fl: TRIALS[tier][fl] for fl in flavours},
        "table_notes": {e["id"]: e["notes"] for e in entries if e["notes"]},
    }
    return done(required=required, extra=extra)


def asan_results(tier, seed, work, trials):
    """sanitizer-only slice for C18: asan + asan512 builds of the same monitor"""
    entries, msgs = g16.consistency(vfw.REPO)
    if msgs:
        raise vfw.Inconclusive("C16 overload table differs from the header: " + "; ".join(msgs[:5]))
    thunks = g16.emit(entries, work.path("gen16"), N_THUNK_TUS)
    flavours = ["asan", "asan512"] if vfw.have_avx512() else ["asan"]
    jobs = [{"name": "wrappers16-" + fl, "flavour": fl, "srcs": [H("wrappers16.cpp")] + thunks, "libsrcs": LIBSRCS,
             "defs": ["-I" + os.path.join(VERIF, "harness")]} for fl in flavours]
    return jobs, [("wrappers16-" + fl, "C16", seed + SEED_OFFSET[fl], ["--trials", str(trials)], "w16-" + fl, NCPU, None) for fl in flavours]


def register(reg):
    reg["C16"] = check_c16


if __name__ == "__main__":
    w = vfw.Work("c16")
    try:
        sys.exit(check_c16("C16", os.environ.get("VERIF_TIER", "quick"), int(os.environ.get("VERIF_SEED", "1")), w, time.time()))
    finally:
        w.cleanup()
