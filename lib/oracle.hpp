// Independent reference arithmetic for the Goldilocks field p = 2^64 - 2^32 + 1.
// Shares no code with /repo: unsigned __int128 '%' for the field, GMP for cross-checks.
// All oracle values are canonical uint64_t in [0,p).
#pragma once
#include <cstdint>
#include <cstring>
#include <vector>
#include <string>
#include <gmp.h>

namespace orc {

typedef unsigned __int128 u128;
static const uint64_t PR = 0xFFFFFFFF00000001ULL;

static inline uint64_t canon(uint64_t x) { return x >= PR ? x - PR : x; }
static inline uint64_t red128(u128 x) { return (uint64_t)(x % PR); }
static inline uint64_t add(uint64_t a, uint64_t b) { return red128((u128)canon(a) + canon(b)); }
static inline uint64_t sub(uint64_t a, uint64_t b) { return red128((u128)canon(a) + PR - canon(b)); }
static inline uint64_t mul(uint64_t a, uint64_t b) { return red128((u128)canon(a) * canon(b)); }
static inline uint64_t neg(uint64_t a) { return canon(a) == 0 ? 0 : PR - canon(a); }
static inline uint64_t pw(uint64_t b, uint64_t e)
{
    uint64_t r = 1;
    b = canon(b);
    while (e)
    {
        if (e & 1) r = mul(r, b);
        b = mul(b, b);
        e >>= 1;
    }
    return r;
}
static inline uint64_t inv(uint64_t a) { return pw(a, PR - 2); }

// GMP versions (different code path, used on samples to cross-check the u128 oracle itself)
struct Gmp
{
    mpz_t p, a, b, r;
    Gmp()
    {
        mpz_init_set_str(p, "18446744069414584321", 10);
        mpz_init(a); mpz_init(b); mpz_init(r);
    }
    ~Gmp() { mpz_clear(p); mpz_clear(a); mpz_clear(b); mpz_clear(r); }
    static void set64(mpz_t z, uint64_t v) { mpz_import(z, 1, 1, 8, 0, 0, &v); }
    static uint64_t get64(mpz_t z)
    {
        uint64_t v = 0;
        size_t cnt = 0;
        mpz_export(&v, &cnt, 1, 8, 0, 0, z);
        return cnt ? v : 0;
    }
    uint64_t op(char o, uint64_t x, uint64_t y)
    {
        set64(a, x); set64(b, y);
        switch (o)
        {
        case '+': mpz_add(r, a, b); break;
        case '-': mpz_sub(r, a, b); break;
        case '*': mpz_mul(r, a, b); break;
        case '^': mpz_powm(r, a, b, p); break;
        case 'i': mpz_invert(r, a, p); break;
        }
        mpz_fdiv_r(r, r, p);
        return get64(r);
    }
};

// ---------------------------------------------------------------- roots of unity (pinned)
// The 33 published 2^k-th roots of unity of the Goldilocks field, W[k] has order 2^k.
static const uint64_t ROOTS[33] = {
    0x1ULL, 18446744069414584320ULL, 281474976710656ULL, 16777216ULL, 4096ULL, 64ULL, 8ULL,
    2198989700608ULL, 4404853092538523347ULL, 6434636298004421797ULL, 4255134452441852017ULL,
    9113133275150391358ULL, 4355325209153869931ULL, 4308460244895131701ULL, 7126024226993609386ULL,
    1873558160482552414ULL, 8167150655112846419ULL, 5718075921287398682ULL, 3411401055030829696ULL,
    8982441859486529725ULL, 1971462654193939361ULL, 6553637399136210105ULL, 8124823329697072476ULL,
    5936499541590631774ULL, 2709866199236980323ULL, 8877499657461974390ULL, 3757607247483852735ULL,
    4969973714567017225ULL, 2147253751702802259ULL, 2530564950562219707ULL, 1905180297017055339ULL,
    3524815499551269279ULL, 7277203076849721926ULL};
static const uint64_t COSET_SHIFT = 7;

// self-check of the pinned table: W[32] has exact order 2^32 and W[k] = W[k+1]^2
static inline bool roots_selfcheck()
{
    for (int k = 0; k < 32; k++)
        if (mul(ROOTS[k + 1], ROOTS[k + 1]) != ROOTS[k]) return false;
    if (ROOTS[0] != 1 || ROOTS[1] != PR - 1) return false;
    return true;
}

// ---------------------------------------------------------------- transforms (column-major helpers)
// Naive DFT of one column: out[k] = sum_j in[j] * w^(j*k), w = ROOTS[log2 n] (or its inverse), optional 1/n scaling
static inline void dft_col(std::vector<uint64_t> &out, const std::vector<uint64_t> &in, unsigned logn, bool inverse)
{
    uint64_t n = (uint64_t)1 << logn;
    uint64_t w = ROOTS[logn];
    if (inverse) w = inv(w);
    out.assign(n, 0);
    std::vector<uint64_t> pwv(n);
    pwv[0] = 1;
    for (uint64_t i = 1; i < n; i++) pwv[i] = mul(pwv[i - 1], w);
    uint64_t ninv = inverse ? inv(n % PR) : 1;
    for (uint64_t k = 0; k < n; k++)
    {
        u128 acc = 0;
        for (uint64_t j = 0; j < n; j++)
        {
            acc += (u128)mul(in[j], pwv[(j * k) & (n - 1)]);
            if ((j & 0xFFFF) == 0xFFFF) acc %= PR;
        }
        uint64_t v = red128(acc);
        out[k] = inverse ? mul(v, ninv) : v;
    }
}
// one output position of the DFT by Horner: sum_j in[j] * x^j
static inline uint64_t horner(const std::vector<uint64_t> &coef, uint64_t x)
{
    uint64_t acc = 0;
    for (size_t j = coef.size(); j-- > 0;) acc = add(mul(acc, x), coef[j]);
    return acc;
}

// ---------------------------------------------------------------- cubic extension F_p[x]/(x^3 - x - 1)
struct E3
{
    uint64_t c[3];
};
static inline E3 c3(uint64_t a, uint64_t b, uint64_t c)
{
    E3 r = {{canon(a), canon(b), canon(c)}};
    return r;
}
static inline bool eq3(const E3 &a, const E3 &b) { return a.c[0] == b.c[0] && a.c[1] == b.c[1] && a.c[2] == b.c[2]; }
static inline E3 add3(const E3 &a, const E3 &b) { return c3(add(a.c[0], b.c[0]), add(a.c[1], b.c[1]), add(a.c[2], b.c[2])); }
static inline E3 sub3(const E3 &a, const E3 &b) { return c3(sub(a.c[0], b.c[0]), sub(a.c[1], b.c[1]), sub(a.c[2], b.c[2])); }
static inline E3 neg3(const E3 &a) { return c3(neg(a.c[0]), neg(a.c[1]), neg(a.c[2])); }
// schoolbook product, then x^3 = x + 1, x^4 = x^2 + x
static inline E3 mul3(const E3 &a, const E3 &b)
{
    uint64_t d[5] = {0, 0, 0, 0, 0};
    for (int i = 0; i < 3; i++)
        for (int j = 0; j < 3; j++) d[i + j] = add(d[i + j], mul(a.c[i], b.c[j]));
    // d3*x^3 = d3*x + d3 ; d4*x^4 = d4*x^2 + d4*x
    uint64_t r0 = add(d[0], d[3]);
    uint64_t r1 = add(add(d[1], d[3]), d[4]);
    uint64_t r2 = add(d[2], d[4]);
    return c3(r0, r1, r2);
}
static inline E3 scal3(const E3 &a, uint64_t s) { return c3(mul(a.c[0], s), mul(a.c[1], s), mul(a.c[2], s)); }
static inline bool iszero3(const E3 &a) { return a.c[0] == 0 && a.c[1] == 0 && a.c[2] == 0; }
// inverse by exponentiation a^(p^3-2) would need big exponents; use linear algebra instead:
// solve (a * y) = 1 for y via the 3x3 multiplication matrix of a (Cramer / Gaussian elimination mod p)
static inline E3 inv3(const E3 &a)
{
    // columns: a*1, a*x, a*x^2
    E3 e0 = a;
    E3 e1 = mul3(a, c3(0, 1, 0));
    E3 e2 = mul3(a, c3(0, 0, 1));
    uint64_t m[3][4] = {{e0.c[0], e1.c[0], e2.c[0], 1}, {e0.c[1], e1.c[1], e2.c[1], 0}, {e0.c[2], e1.c[2], e2.c[2], 0}};
    for (int col = 0; col < 3; col++)
    {
        int piv = -1;
        for (int r = col; r < 3; r++)
            if (m[r][col] != 0) { piv = r; break; }
        if (piv < 0) return c3(0, 0, 0);
        if (piv != col)
            for (int k = 0; k < 4; k++) { uint64_t t = m[col][k]; m[col][k] = m[piv][k]; m[piv][k] = t; }
        uint64_t iv = inv(m[col][col]);
        for (int k = 0; k < 4; k++) m[col][k] = mul(m[col][k], iv);
        for (int r = 0; r < 3; r++)
            if (r != col && m[r][col] != 0)
            {
                uint64_t f = m[r][col];
                for (int k = 0; k < 4; k++) m[r][k] = sub(m[r][k], mul(f, m[col][k]));
            }
    }
    return c3(m[0][3], m[1][3], m[2][3]);
}

} // namespace orc
