// C12: parallel regions are race-free; results independent of team size and member order.
//   flavour tsan  (+gomp_shim, threads mode, no fork): ThreadSanitizer watches every region; reports are read from the log by the driver
//   flavour shim  (production flags + gomp_shim, seq mode): every region's members run in a chosen order; outputs must be bit-identical
//   flavour prod  (real libgomp): team sizes 1,2,3,4,8,16,33; outputs must be bit-identical to the single-thread run
#include "goldilocks_base_field.hpp"
#include "ntt_goldilocks.hpp"
#include "poseidon_goldilocks.hpp"
#include "merklehash_goldilocks.hpp"
#include "harness.hpp"
#include <omp.h>
#include "gen.hpp"
#include <climits>
#include <memory>
#include <set>

using vf::J;
using vf::Report;
using vf::Rng;
typedef Goldilocks::Element El;

extern "C" void verif_omp_set_mode(int mode, uint64_t perm_seed, int force_team) __attribute__((weak));
extern "C" void verif_omp_set_perm_index(int64_t index, int force_team) __attribute__((weak));
extern "C" void verif_omp_set_delay(int delay_us) __attribute__((weak));
extern "C" void verif_omp_stats(uint64_t out[5]) __attribute__((weak));
extern "C" uint64_t verif_omp_distinct_orders(void) __attribute__((weak));

static std::set<std::string> *g_hook_seen;
extern "C" void goldilocks_verif_event(const char *tag, u_int64_t a, u_int64_t, u_int64_t, u_int64_t d)
{
    if (!g_hook_seen) return;
    std::string t = tag;
    if (t == "revperm") g_hook_seen->insert("hook:revperm:branch" + std::to_string(a));
    else if (t == "ntt_pass") g_hook_seen->insert("hook:ntt_pass:writeback" + std::to_string(d));
}

struct Work
{
    int kind;  // 0 NTT 1 INTT 2 extendPol 3..10 merkle builders 11 parcpy 12 parSetZero
    int S, d, e;
    uint64_t ncols, nphase, nblock;
    int buffer, alias;
    uint64_t rows, cols, dim, batch;
    uint64_t size;
    std::string name() const
    {
        static const char *N[] = {"NTT", "INTT", "extendPol", "merkletree_seq", "merkletree_avx", "merkletree_avx512", "merkletree", "merkletree_batch_seq", "merkletree_batch_avx", "merkletree_batch_avx512", "merkletree_batch", "parcpy", "parSetZero"};
        return N[kind];
    }
    std::string json() const
    {
        if (kind <= 2) return J().str("op", name()).i("S", S).i("d", d).i("e", e).u("ncols", ncols).h("nphase", nphase).h("nblock", nblock).i("buffer", buffer).i("alias", alias).done();
        if (kind <= 10) return J().str("op", name()).u("rows", rows).u("cols", cols).u("dim", dim).u("batch", batch).done();
        return J().str("op", name()).u("size", size).done();
    }
};

// execute the workload with the given thread argument; returns the output bytes
static void execute(const Work &w, int threads, std::vector<uint64_t> &out, uint64_t seed)
{
    Rng r(vf::mix64(seed, vf::mix64(w.kind * 1000 + w.d * 37 + w.e, w.ncols * 131 + w.rows * 17 + w.cols + w.size)));
    if (w.kind <= 2)
    {
        uint64_t n = 1ULL << w.d, next = w.kind == 2 ? 1ULL << w.e : n;
        std::vector<uint64_t> src(next * w.ncols), dst(next * w.ncols, 0x1111), buf(next * w.ncols + 8, 0x2222);
        for (uint64_t i = 0; i < n * w.ncols; i++) src[i] = r.next();
        NTT_Goldilocks ntt(1ULL << w.S, (uint32_t)threads);
        El *s = (El *)src.data(), *d = w.alias == 0 ? s : (w.alias == 1 ? (El *)dst.data() : NULL);
        El *b = w.buffer ? (El *)buf.data() : NULL;
        if (w.kind == 0) ntt.NTT(d, s, n, w.ncols, b, w.nphase, w.nblock);
        else if (w.kind == 1) ntt.INTT(d, s, n, w.ncols, b, w.nphase, w.nblock);
        else ntt.extendPol(w.alias == 0 ? s : (El *)dst.data(), s, next, n, w.ncols, b, w.nphase, w.nblock);
        out = (w.alias == 1 || (w.kind == 2 && w.alias != 0)) ? dst : src;
        return;
    }
    if (w.kind <= 10)
    {
        uint64_t n = w.rows * w.cols * w.dim;
        std::vector<uint64_t> in(n + 1);
        for (uint64_t i = 0; i < n; i++) in[i] = r.next();
        uint64_t ne = MerklehashGoldilocks::getTreeNumElements(w.rows);
        out.assign(ne, 0x3333);
        El *T = (El *)out.data(), *I = (El *)in.data();
        switch (w.kind)
        {
        case 3: PoseidonGoldilocks::merkletree_seq(T, I, w.cols, w.rows, threads, w.dim); break;
        case 4: PoseidonGoldilocks::merkletree_avx(T, I, w.cols, w.rows, threads, w.dim); break;
        case 6: PoseidonGoldilocks::merkletree(T, I, w.cols, w.rows, threads, w.dim); break;
        case 7: PoseidonGoldilocks::merkletree_batch_seq(T, I, w.cols, w.rows, w.batch, threads, w.dim); break;
        case 8: PoseidonGoldilocks::merkletree_batch_avx(T, I, w.cols, w.rows, w.batch, threads, w.dim); break;
        case 10: PoseidonGoldilocks::merkletree_batch(T, I, w.cols, w.rows, w.batch, threads, w.dim); break;
#ifdef __AVX512__
        case 5: PoseidonGoldilocks::merkletree_avx512(T, I, w.cols, w.rows, threads, w.dim); break;
        case 9: PoseidonGoldilocks::merkletree_batch_avx512(T, I, w.cols, w.rows, w.batch, threads, w.dim); break;
#endif
        }
        return;
    }
    {
        std::vector<uint64_t> src(w.size + 2), dst(w.size + 2, 0x4444);
        for (auto &v : src) v = r.next();
        if (w.kind == 11) Goldilocks::parcpy((El *)dst.data(), (El *)src.data(), w.size, threads);
        else Goldilocks::parSetZero((El *)dst.data(), w.size, threads);
        out = dst;
    }
}

static void build_workloads(std::vector<Work> &ws, const vf::Args &args)
{
    bool th = args.thorough();
    int dmax = (int)args.getu("dmax", th ? 8 : 6);
    uint64_t thin = args.getu("thin", th ? 2 : 6);
    for (int kind = 0; kind < 3; kind++)
        for (int d = 0; d <= dmax; d++)
            for (int ex = 0; ex <= (kind == 2 ? 2 : 0); ex++)
                for (uint64_t ncols : {1ULL, 3ULL, 5ULL, 8ULL})
                    for (uint64_t nphase : {1ULL, 2ULL, 3ULL, 4ULL})
                        for (uint64_t nblock : {1ULL, 2ULL, 3ULL})
                            for (int buffer = 0; buffer < 2; buffer++)
                                for (int alias = 0; alias < (kind == 2 ? 2 : 3); alias++)
                                {
                                    uint64_t h = vf::mix64(vf::mix64(kind * 100 + d, ncols * 10 + nphase), nblock * 100 + buffer * 10 + alias + ex * 1000);
                                    if (h % thin) continue;
                                    Work w{};
                                    w.kind = kind; w.d = d; w.e = d + ex; w.S = d + (int)(h / 7 % 2); w.ncols = ncols; w.nphase = nphase; w.nblock = nblock; w.buffer = buffer; w.alias = alias;
                                    ws.push_back(w);
                                }
    // a few transforms with more than 1024 rows per member (chunked schedules, per-member state)
    for (int kind = 0; kind < 3; kind++)
        for (int d : {12, 13})
            for (uint64_t ncols : {1ULL, 5ULL})
            {
                Work w{};
                w.kind = kind; w.d = d; w.e = d + (kind == 2 ? 1 : 0); w.S = d; w.ncols = ncols; w.nphase = d == 12 ? 3 : 2; w.nblock = ncols == 5 ? 2 : 1; w.buffer = 0; w.alias = (d + (int)ncols) % 2;
                ws.push_back(w);
            }
#ifdef __AVX512__
    const int builders[] = {3, 4, 5, 6, 7, 8, 9, 10};
#else
    const int builders[] = {3, 4, 6, 7, 8, 10};
#endif
    for (int b : builders)
        for (uint64_t rows : {1ULL, 2ULL, 4ULL, 8ULL, 64ULL})
            for (uint64_t cols : {0ULL, 1ULL, 5ULL, 9ULL})
                for (uint64_t dim : {1ULL, 3ULL})
                {
                    if (rows == 64 && dim == 3 && !th) continue;
                    Work w{};
                    w.kind = b; w.rows = rows; w.cols = cols; w.dim = dim; w.batch = (rows + cols) % 2 ? 2 : 8;
                    ws.push_back(w);
                }
    for (int kind = 11; kind <= 12; kind++)
        for (uint64_t size : {0ULL, 1ULL, 7ULL, 64ULL, 65ULL, 1000ULL, 65539ULL})
        {
            Work w{};
            w.kind = kind; w.size = size;
            ws.push_back(w);
        }
}

int main(int argc, char **argv)
{
    vf::Args args = vf::parse_args(argc, argv);
    Report rep;
    rep.open(args.prop, args.out);
    std::set<std::string> hook_seen;
    g_hook_seen = &hook_seen;
    std::string mode = args.get("mode", "threads"); // threads | seq | libgomp
    std::vector<Work> ws;
    build_workloads(ws, args);
    const int TEAMS[] = {1, 2, 3, 4, 7, 16, 33};
    const int TEAMS_LIBGOMP[] = {1, 2, 3, 4, 8, 16, 33};
    uint64_t delays = 0;
    // cold start: this process's very first use of the library is a full team (whatever is prepared lazily on first use is then
    // prepared inside the parallel region); which entry point goes first rotates with the shard index
    {
        std::vector<Work> cands;
        for (int kind = 0; kind <= 10; kind++)
        {
            const Work *best = nullptr;
            for (const Work &w : ws)
                if (w.kind == kind && (kind <= 2 ? (w.d == 6 && w.ncols >= 3) : (w.rows == 64 && w.cols == 9 && w.dim == 1))) { best = &w; break; }
            if (best) cands.push_back(*best);
        }
        const Work &w = cands[(args.shard + args.seed) % cands.size()];
        std::vector<uint64_t> first, ref;
        if (verif_omp_set_mode) verif_omp_set_mode(mode == "threads" ? 0 : 1, vf::mix64(args.seed, 0xC01D + args.shard) | 1, 0);
        if (verif_omp_set_delay) verif_omp_set_delay(0);
        execute(w, 8, first, args.seed);
        if (verif_omp_set_mode) verif_omp_set_mode(mode == "threads" ? 0 : 1, 0, 0);
        execute(w, 1, ref, args.seed);
        rep.evaluations++;
        if (first.size() != ref.size() || memcmp(first.data(), ref.data(), ref.size() * 8) != 0)
            rep.violation("C12:" + mode + ":" + w.name() + ":first-use-in-the-process-by-a-team:output-differs-from-single-thread", J().raw("workload", w.json()).i("thread_argument", 8).done());
        rep.cls("coldstart:first_library_use_is_a_team_of_8");
        rep.cls("coldstart:" + w.name());
    }
    for (uint64_t i = 0; i < ws.size(); i++)
    {
        if ((int)(vf::mix64(i, 11) % args.nshards) != args.shard) continue;
        const Work &w = ws[i];
        std::vector<uint64_t> ref, got;
        // reference: single member
        if (verif_omp_set_mode) verif_omp_set_mode(mode == "threads" ? 0 : 1, 0, 0);
        if (verif_omp_set_delay) verif_omp_set_delay(0);
        int one = (w.kind >= 11) ? 1 : 1;
        execute(w, one, ref, args.seed);
        rep.cls("workload:" + w.name());
        for (int ti = 0; ti < 7; ti++)
        {
            int team = mode == "libgomp" ? TEAMS_LIBGOMP[ti] : TEAMS[ti];
            // parcpy / parSetZero: also non-positive thread arguments
            std::vector<int> targs = {team};
            if (w.kind >= 11 && ti == 0) { targs.push_back(0); targs.push_back(-1); targs.push_back(INT_MIN); }
            for (int targ : targs)
            {
                int nperm = 1;
                if (mode == "seq") { nperm = team == 1 ? 1 : (team == 2 ? 2 : (team == 3 ? 6 : (team == 4 ? 24 : (int)args.getu("perms", args.thorough() ? 12 : 4)))); }
                if (mode == "threads") nperm = (int)args.getu("repeats", args.thorough() ? 3 : 1) + (team > 1 ? 1 : 0);
                if (w.kind <= 2 && w.d >= 12 && nperm > 3 && !args.thorough()) nperm = 3; // big transforms: three orders per team in the quick tier
                for (int p = 0; p < nperm; p++)
                {
                    if (mode == "seq" && verif_omp_set_perm_index)
                    {
                        if (team <= 4) verif_omp_set_perm_index(p, 0);
                        else verif_omp_set_mode(1, vf::mix64(args.seed, i * 1000 + ti * 50 + p) | 1, 0);
                    }
                    if (mode == "threads" && verif_omp_set_mode)
                    {
                        verif_omp_set_mode(0, vf::mix64(args.seed, i * 1000 + ti * 50 + p), 0);
                        bool delay = p == nperm - 1 && team > 1; // last repetition with seeded start-up delays
                        if (verif_omp_set_delay) verif_omp_set_delay(delay ? 300 : 0);
                        if (delay) delays++;
                    }
                    execute(w, targ, got, args.seed);
                    rep.evaluations++;
                    if (got.size() != ref.size() || memcmp(got.data(), ref.data(), ref.size() * 8) != 0)
                    {
                        uint64_t k = 0;
                        while (k < ref.size() && k < got.size() && ref[k] == got[k]) k++;
                        rep.violation("C12:" + mode + ":" + w.name() + ":output-differs-from-single-thread",
                                      J().raw("workload", w.json()).i("thread_argument", targ).i("order_or_repetition", p).u("first_difference_at", k).done());
                    }
                    rep.cls("team:" + std::to_string(team));
                    if (targ < 1) rep.cls("team:nonpositive_thread_argument");
                }
            }
        }
        // a runtime may deliver fewer members than requested (thread limit, dynamic adjustment, nested region): still the same output
        if (mode == "seq" && verif_omp_set_mode)
        {
            for (int req : {4, 16, 64})
                for (int delivered : {1, 2, 3})
                {
                    verif_omp_set_mode(1, vf::mix64(args.seed, i * 77 + req + delivered) | 1, delivered);
                    execute(w, req, got, args.seed);
                    rep.evaluations++;
                    if (got.size() != ref.size() || memcmp(got.data(), ref.data(), ref.size() * 8) != 0)
                        rep.violation("C12:" + mode + ":" + w.name() + ":output-differs-when-team-smaller-than-requested",
                                      J().raw("workload", w.json()).i("requested", req).i("delivered", delivered).done());
                    rep.cls("team:delivered_smaller_than_requested");
                }
            verif_omp_set_mode(1, 0, 0);
        }
        // the same workload issued by every member of an OpenMP team of the caller (the library's regions are then nested ones): each
        // member, on its own buffers, must get the single-thread output. Real runtime only; every third workload; bounded sizes.
        if (mode == "libgomp" && args.getu("teamcallers", 0) && i % 3 == 0 && (w.kind > 10 || (w.kind <= 2 ? w.d <= 9 : w.rows <= 64)))
        {
            std::set<std::string> *keep = g_hook_seen;
            g_hook_seen = nullptr; // the evidence hook is not thread safe
            const int T = 2 + (int)(i % 3);
            std::vector<std::vector<uint64_t>> outs(T);
#pragma omp parallel num_threads(T)
            {
                int me = omp_get_thread_num();
                if (me < T) execute(w, 1 + (me + (int)i) % 4, outs[me], args.seed);
            }
            g_hook_seen = keep;
            for (int t = 0; t < T; t++)
            {
                rep.evaluations++;
                if (outs[t].size() != ref.size() || memcmp(outs[t].data(), ref.data(), ref.size() * 8) != 0)
                {
                    rep.violation("C12:" + mode + ":" + w.name() + ":output-differs-when-the-caller-is-a-member-of-an-OpenMP-team",
                                  J().raw("workload", w.json()).i("team_of_callers", T).i("caller", t).done());
                    break;
                }
            }
            rep.cls("team:callers_inside_an_OpenMP_team");
        }
        rep.nontrivial(vf::mix64(i, w.kind));
        if (i % 53 == 0) rep.sample(w.name(), w.json());
    }
    for (auto &s : hook_seen) rep.cls(s);
    rep.cls("mode:" + mode);
    rep.cls("threads:runs_with_injected_startup_delays", delays);
    if (verif_omp_stats)
    {
        uint64_t st[5];
        verif_omp_stats(st);
        rep.cls("omp_shim:regions", st[0]);
        rep.cls("omp_shim:members_run", st[1]);
        rep.cls("omp_shim:regions_with_permuted_member_order", st[4]);
        if (verif_omp_distinct_orders) rep.cls("omp_shim:distinct_team_member_orders(capped_8192_per_process)", verif_omp_distinct_orders());
    }
    rep.finish();
    return 0;
}
