// C18 (2): object lifetimes under ASan (alloc-dealloc-mismatch, use-after-free, leaks via LeakSanitizer at exit).
// construct / use (any call sequence) / destroy transform objects, incl. maxDomain 0 and 1, destruction after zero,
// one and several extendPol calls with changing N, heap and stack objects, many objects alive at once.
#include "goldilocks_base_field.hpp"
#include "ntt_goldilocks.hpp"
#include "poseidon_goldilocks.hpp"
#include "merklehash_goldilocks.hpp"
#include "harness.hpp"
#include <memory>

using vf::J;
using vf::Report;
using vf::Rng;
typedef Goldilocks::Element El;

static void use(NTT_Goldilocks &ntt, int S, Rng &r, int ncalls, Report &rep, std::string &trace)
{
    for (int k = 0; k < ncalls; k++)
    {
        int kind = (int)r.below(3);
        int d = (int)r.below(S + 1), e = d + (int)r.below(3);
        uint64_t ncols = 1 + r.below(4), n = 1ULL << d, next = kind == 2 ? 1ULL << e : n;
        uint64_t nphase = r.below(d + 3), nblock = r.below(ncols + 2);
        El *src = (El *)malloc(next * ncols * sizeof(El)); // exact size
        El *dst = (El *)malloc(next * ncols * sizeof(El));
        for (uint64_t i = 0; i < n * ncols; i++) src[i].fe = r.next();
        bool inplace = r.coin();
        if (kind == 0) ntt.NTT(inplace ? src : dst, src, n, ncols, NULL, nphase, nblock);
        else if (kind == 1) ntt.INTT(inplace ? NULL : dst, src, n, ncols, NULL, nphase, nblock);
        else ntt.extendPol(inplace ? src : dst, src, next, n, ncols, NULL, nphase, nblock);
        free(src);
        free(dst);
        trace += (kind == 0 ? "N" : (kind == 1 ? "I" : "E")) + std::to_string(d) + (kind == 2 ? ">" + std::to_string(e) : "") + " ";
        rep.cls(kind == 2 ? "lifetime:extendPol_calls" : "lifetime:transform_calls");
    }
}

int main(int argc, char **argv)
{
    vf::Args args = vf::parse_args(argc, argv);
    Report rep;
    rep.open(args.prop, args.out);
    Rng rng(vf::mix64(args.seed, 0x11FE + args.shard));
    uint64_t n = args.getu("objects", args.thorough() ? 20000 : 1500) / args.nshards + 1;
    // degenerate objects
    for (int rep_i = 0; rep_i < 3; rep_i++)
    {
        { NTT_Goldilocks z(0); rep.cls("lifetime:maxDomain0"); }
        { NTT_Goldilocks o(1); rep.cls("lifetime:maxDomain1"); }
        { NTT_Goldilocks o(1, 3); El x[3] = {{1}, {2}, {3}}; o.NTT(x, x, 1, 3); o.INTT(NULL, x, 1, 3); El y[12]; o.extendPol(y, x, 4, 1, 3); rep.cls("lifetime:maxDomain1_used"); }
        { std::unique_ptr<NTT_Goldilocks> h(new NTT_Goldilocks(0)); }
        rep.evaluations += 4;
    }
    for (uint64_t t = 0; t < n; t++)
    {
        int S = (int)rng.below(9);
        int ncalls = (int)rng.below(4) == 0 ? 0 : (int)rng.below(6);
        std::string trace;
        rep.evaluations++;
        if (rng.coin())
        {
            NTT_Goldilocks ntt(1ULL << S, 1 + (uint32_t)rng.below(4));
            use(ntt, S, rng, ncalls, rep, trace);
            rep.cls("lifetime:stack_objects");
        }
        else
        {
            // several heap objects alive at once, destroyed in another order
            std::vector<std::unique_ptr<NTT_Goldilocks>> objs;
            int k = 1 + (int)rng.below(3);
            for (int i = 0; i < k; i++) objs.emplace_back(new NTT_Goldilocks(1ULL << S, 1 + (uint32_t)rng.below(4)));
            for (int i = 0; i < k; i++) use(*objs[(i * 2 + 1) % k], S, rng, ncalls, rep, trace);
            while (!objs.empty()) { size_t j = rng.below(objs.size()); objs.erase(objs.begin() + (long)j); }
            rep.cls("lifetime:heap_objects_interleaved");
        }
        if (ncalls == 0) rep.cls("lifetime:destroyed_unused");
        rep.nontrivial(vf::mix64(t, S * 100 + ncalls));
        if (t < 3) rep.sample("lifetime", J().i("S", S).str("calls", trace).done());
    }
    // Merkle builders allocate nothing that outlives the call: a few runs so that LeakSanitizer sees them too
    for (int i = 0; i < 20; i++)
    {
        uint64_t rows = 1ULL << rng.below(5), cols = rng.below(10);
        std::vector<El> in(rows * cols + 1), tree(MerklehashGoldilocks::getTreeNumElements(rows));
        for (auto &e : in) e.fe = rng.next();
        PoseidonGoldilocks::merkletree_seq(tree.data(), in.data(), cols, rows, 2);
        PoseidonGoldilocks::merkletree_batch_avx(tree.data(), in.data(), cols, rows, 3, 2);
        rep.cls("lifetime:merkle_calls");
    }
    rep.cls("lifetime:process_reached_exit(leak check follows)");
    rep.finish();
    return 0; // LeakSanitizer runs at exit; the driver reads its report from stderr / exit status
}
