// C01 (scalar field ops), C10 (inv/div/exp), C15 (conversions & predicates)
// Differential monitors against the u128/GMP oracle with boundary-directed operand families.
#include "goldilocks_base_field.hpp"
#include "harness.hpp"
#include "oracle.hpp"
#include "gen.hpp"
#include <gmpxx.h>
#include <climits>

using vf::J;
using vf::Report;
using vf::Rng;
typedef Goldilocks::Element El;
typedef unsigned __int128 u128;
static const uint64_t PP = 0xFFFFFFFF00000001ULL;

static inline El mk(uint64_t v)
{
    El e;
    e.fe = v;
    return e;
}
static inline uint64_t cn(const El &e) { return orc::canon(e.fe); }

// ============================================================================================ C01
namespace c01 {

enum Op { ADD, SUB, MUL, SQUARE, NEG, INC, DEC, MULSCALAR, NOPS };
static const char *OPN[] = {"add", "sub", "mul", "square", "neg", "inc", "dec", "mulScalar"};

struct Ctx
{
    Report &rep;
    orc::Gmp gmp;
    uint64_t gmp_tick = 0;
    // hot counters
    uint64_t *k_add[3], *k_sub[3], *k_mul[2][2], *k_hi0, *k_hilo_f, *k_hihi_f, *k_out_ge_p, *k_inc[3], *k_dec[2], *k_noncanon_in, *k_gmp;
    Ctx(Report &r) : rep(r)
    {
        k_add[0] = &r.counter("add:no_carry"); k_add[1] = &r.counter("add:one_carry"); k_add[2] = &r.counter("add:two_carries");
        k_sub[0] = &r.counter("sub:no_borrow"); k_sub[1] = &r.counter("sub:one_borrow"); k_sub[2] = &r.counter("sub:two_borrows");
        k_mul[0][0] = &r.counter("mul:carry0_borrow0"); k_mul[0][1] = &r.counter("mul:carry0_borrow1");
        k_mul[1][0] = &r.counter("mul:carry1_borrow0"); k_mul[1][1] = &r.counter("mul:carry1_borrow1");
        k_hi0 = &r.counter("mul:hi_zero"); k_hilo_f = &r.counter("mul:hi_lo_ffffffff"); k_hihi_f = &r.counter("mul:hi_hi_ffffffff");
        k_out_ge_p = &r.counter("out:noncanonical_result");
        k_inc[0] = &r.counter("inc:plus1"); k_inc[1] = &r.counter("inc:wrap_to_zero"); k_inc[2] = &r.counter("inc:via_add");
        k_dec[0] = &r.counter("dec:minus1"); k_dec[1] = &r.counter("dec:wrap");
        k_noncanon_in = &r.counter("in:noncanonical_operand");
        k_gmp = &r.counter("oracle:gmp_crosschecks");
    }
};

// shadow classifier: which correction path does (a,b) take in add/sub/mul; returns a small class id, sets nontrivial
static inline int cls_add(uint64_t a, uint64_t b)
{
    u128 s = (u128)a + b;
    if (!(s >> 64)) return 0;
    u128 t = (u128)(uint64_t)s + 0xFFFFFFFFULL;
    return (t >> 64) ? 2 : 1;
}
static inline int cls_sub(uint64_t a, uint64_t b)
{
    if (a >= b) return 0;
    uint64_t t = a - b;
    return t < 0xFFFFFFFFULL ? 2 : 1;
}
static inline int cls_mul(uint64_t a, uint64_t b, bool &hi0, bool &hilof, bool &hihif)
{
    u128 pr = (u128)a * b;
    uint64_t lo = (uint64_t)pr, hi = (uint64_t)(pr >> 64);
    uint64_t hi_lo = hi & 0xFFFFFFFFULL, hi_hi = hi >> 32;
    hi0 = hi == 0; hilof = hi_lo == 0xFFFFFFFFULL; hihif = hi_hi == 0xFFFFFFFFULL;
    uint64_t rdx = hi_lo * 0xFFFFFFFFULL + 0x100000000ULL;
    u128 s = (u128)lo + rdx;
    int carry = (s >> 64) ? 1 : 0;
    uint64_t v = (uint64_t)s + (carry ? 0xFFFFFFFFULL : 0);
    uint64_t rcx = hi_hi + 0x100000000ULL;
    int borrow = v < rcx ? 1 : 0;
    return carry * 2 + borrow;
}

static void fail(Ctx &c, const char *op, const char *form, const char *pcls, uint64_t a, uint64_t b, uint64_t got, uint64_t exp)
{
    std::string key = std::string("C01:") + op + ":" + form + ":" + pcls;
    c.rep.violation(key, J().str("op", op).str("form", form).str("path", pcls).h("a", a).h("b", b).h("got_raw", got).h("got_canonical", orc::canon(got)).h("expected", exp).done());
}

#define CHECK(opname, form, pcls, gotexpr, expv)                                \
    do                                                                         \
    {                                                                          \
        uint64_t g__ = (gotexpr);                                              \
        if (g__ >= PP) (*c.k_out_ge_p)++;                                      \
        if (orc::canon(g__) != (expv)) fail(c, opname, form, pcls, a, b, g__, expv); \
    } while (0)

// run every op and aliasing form on the pair (a,b); returns true if some correction path was taken
static inline bool pair(Ctx &c, uint64_t a, uint64_t b)
{
    bool nontrivial = false;
    if (a >= PP || b >= PP) { (*c.k_noncanon_in)++; nontrivial = true; }
    const El ea = mk(a), eb = mk(b);
    // ---------------- add
    {
        int k = cls_add(a, b);
        (*c.k_add[k])++;
        if (k) nontrivial = true;
        static const char *pc[] = {"no_carry", "one_carry", "two_carries"};
        uint64_t e = orc::add(a, b);
        CHECK("add", "ret", pc[k], Goldilocks::add(ea, eb).fe, e);
        El r = mk(0xDEADBEEF);
        Goldilocks::add(r, ea, eb);
        CHECK("add", "ref", pc[k], r.fe, e);
        El x = ea;
        Goldilocks::add(x, x, eb); // out == a
        CHECK("add", "out=a", pc[k], x.fe, e);
        x = eb;
        Goldilocks::add(x, ea, x); // out == b
        CHECK("add", "out=b", pc[k], x.fe, e);
        CHECK("add", "op+", pc[k], (ea + eb).fe, e);
        // a == b (same object), and all three the same
        int k2 = cls_add(a, a);
        uint64_t e2 = orc::add(a, a);
        uint64_t b_save = b; b = a;
        Goldilocks::add(r, ea, ea);
        CHECK("add", "a=b", pc[k2], r.fe, e2);
        x = ea;
        Goldilocks::add(x, x, x);
        CHECK("add", "out=a=b", pc[k2], x.fe, e2);
        b = b_save;
    }
    // ---------------- sub
    {
        int k = cls_sub(a, b);
        (*c.k_sub[k])++;
        if (k) nontrivial = true;
        static const char *pc[] = {"no_borrow", "one_borrow", "two_borrows"};
        uint64_t e = orc::sub(a, b);
        CHECK("sub", "ret", pc[k], Goldilocks::sub(ea, eb).fe, e);
        El r = mk(0xDEADBEEF);
        Goldilocks::sub(r, ea, eb);
        CHECK("sub", "ref", pc[k], r.fe, e);
        El x = ea;
        Goldilocks::sub(x, x, eb);
        CHECK("sub", "out=a", pc[k], x.fe, e);
        x = eb;
        Goldilocks::sub(x, ea, x);
        CHECK("sub", "out=b", pc[k], x.fe, e);
        CHECK("sub", "op-", pc[k], (ea - eb).fe, e);
        uint64_t b_save = b; b = a;
        x = ea;
        Goldilocks::sub(x, x, x);
        CHECK("sub", "out=a=b", "no_borrow", x.fe, (uint64_t)0);
        b = b_save;
    }
    // ---------------- mul / square / mulScalar
    {
        bool h0, hl, hh;
        int k = cls_mul(a, b, h0, hl, hh);
        (*c.k_mul[k >> 1][k & 1])++;
        if (h0) (*c.k_hi0)++;
        if (hl) (*c.k_hilo_f)++;
        if (hh) (*c.k_hihi_f)++;
        if (k || hl || hh) nontrivial = true;
        static const char *pc[] = {"carry0_borrow0", "carry0_borrow1", "carry1_borrow0", "carry1_borrow1"};
        uint64_t e = orc::mul(a, b);
        CHECK("mul", "ret", pc[k], Goldilocks::mul(ea, eb).fe, e);
        El r = mk(0xDEADBEEF);
        Goldilocks::mul(r, ea, eb);
        CHECK("mul", "ref", pc[k], r.fe, e);
        El x = ea;
        Goldilocks::mul(x, x, eb);
        CHECK("mul", "out=a", pc[k], x.fe, e);
        x = eb;
        Goldilocks::mul(x, ea, x);
        CHECK("mul", "out=b", pc[k], x.fe, e);
        CHECK("mul", "op*", pc[k], (ea * eb).fe, e);
        // mulScalar: b is a raw 64-bit scalar
        CHECK("mulScalar", "ret", pc[k], Goldilocks::mulScalar(ea, b).fe, e);
        Goldilocks::mulScalar(r, ea, b);
        CHECK("mulScalar", "ref", pc[k], r.fe, e);
        x = ea;
        Goldilocks::mulScalar(x, x, b);
        CHECK("mulScalar", "out=a", pc[k], x.fe, e);
        // square
        uint64_t b_save = b; b = a;
        int k2 = cls_mul(a, a, h0, hl, hh);
        uint64_t e2 = orc::mul(a, a);
        CHECK("square", "ret", pc[k2], Goldilocks::square(ea).fe, e2);
        Goldilocks::square(r, ea);
        CHECK("square", "ref", pc[k2], r.fe, e2);
        x = ea;
        Goldilocks::square(x, x);
        CHECK("square", "out=a", pc[k2], x.fe, e2);
        x = ea;
        Goldilocks::mul(x, x, x);
        CHECK("mul", "out=a=b", pc[k2], x.fe, e2);
        b = b_save;
        // occasionally cross-check the u128 oracle itself against GMP
        if ((c.gmp_tick++ & 0x7F) == 0)
        {
            (*c.k_gmp)++;
            if (c.gmp.op('*', a, b) != e || c.gmp.op('+', a, b) != orc::add(a, b) || c.gmp.op('-', a, b) != orc::sub(a, b))
                c.rep.violation("C01:oracle:self-disagreement", J().h("a", a).h("b", b).done());
        }
    }
    // ---------------- neg / inc / dec (unary, on a)
    {
        uint64_t b_save = b; b = 0;
        uint64_t e = orc::neg(a);
        CHECK("neg", "ret", "-", Goldilocks::neg(ea).fe, e);
        El r = mk(0xDEADBEEF);
        Goldilocks::neg(r, ea);
        CHECK("neg", "ref", "-", r.fe, e);
        El x = ea;
        Goldilocks::neg(x, x);
        CHECK("neg", "out=a", "-", x.fe, e);
        CHECK("neg", "op-", "-", (-ea).fe, e);
        int ki = a < PP - 2 ? 0 : (a == PP - 1 ? 1 : 2);
        (*c.k_inc[ki])++;
        static const char *pi[] = {"plus1", "wrap_to_zero", "via_add"};
        CHECK("inc", "ret", pi[ki], Goldilocks::inc(ea).fe, orc::add(a, 1));
        int kd = a > 0 ? 0 : 1;
        (*c.k_dec[kd])++;
        static const char *pd[] = {"minus1", "wrap"};
        CHECK("dec", "ret", pd[kd], Goldilocks::dec(ea).fe, orc::sub(a, 1));
        if (ki || kd) nontrivial = true;
        b = b_save;
    }
    return nontrivial;
}

// alias of a in 64 bits if any (a+p or a-p)
static inline bool alias_of(uint64_t a, uint64_t &al)
{
    if (a >= PP) { al = a - PP; return true; }
    if (a < 0xFFFFFFFFULL) { al = a + PP; return true; }
    return false;
}
// residue-class dependence checked directly on the library (no oracle): op(a,b) vs op(alias a, b) vs op(a, alias b)
static void alias_check(Ctx &c, uint64_t a, uint64_t b)
{
    uint64_t a2, b2;
    bool ha = alias_of(a, a2), hb = alias_of(b, b2);
    if (!ha && !hb) return;
    c.rep.cls("alias:pairs_checked");
    struct { const char *n; uint64_t (*f)(uint64_t, uint64_t); } ops[] = {
        {"add", [](uint64_t x, uint64_t y) { return orc::canon(Goldilocks::add(mk(x), mk(y)).fe); }},
        {"sub", [](uint64_t x, uint64_t y) { return orc::canon(Goldilocks::sub(mk(x), mk(y)).fe); }},
        {"mul", [](uint64_t x, uint64_t y) { return orc::canon(Goldilocks::mul(mk(x), mk(y)).fe); }},
        {"mulScalar", [](uint64_t x, uint64_t y) { return orc::canon(Goldilocks::mulScalar(mk(x), y).fe); }},
        {"neg", [](uint64_t x, uint64_t) { return orc::canon(Goldilocks::neg(mk(x)).fe); }},
        {"inc", [](uint64_t x, uint64_t) { return orc::canon(Goldilocks::inc(mk(x)).fe); }},
        {"dec", [](uint64_t x, uint64_t) { return orc::canon(Goldilocks::dec(mk(x)).fe); }},
        {"square", [](uint64_t x, uint64_t) { return orc::canon(Goldilocks::square(mk(x)).fe); }},
    };
    for (auto &o : ops)
    {
        uint64_t r0 = o.f(a, b);
        if (ha && o.f(a2, b) != r0)
            c.rep.violation(std::string("C01:") + o.n + ":residue-class:first-operand", J().str("op", o.n).h("a", a).h("a_alias", a2).h("b", b).h("r", r0).h("r_alias", o.f(a2, b)).done());
        if (hb && o.f(a, b2) != r0)
            c.rep.violation(std::string("C01:") + o.n + ":residue-class:second-operand", J().str("op", o.n).h("a", a).h("b", b).h("b_alias", b2).h("r", r0).h("r_alias", o.f(a, b2)).done());
    }
}

static inline void run_pair(Ctx &c, const char *family, uint64_t a, uint64_t b)
{
    c.rep.evaluations++;
    bool nt = pair(c, a, b);
    if (nt) c.rep.nontrivial(vf::mix64(a, b));
    static std::map<std::string, int> seen;
    static const char *last = nullptr;
    static int lastn = 0;
    if (family != last) { last = family; lastn = seen[family]; }
    if (lastn < 3) { lastn = ++seen[family]; c.rep.sample(family, J().h("a", a).h("b", b).done()); }
}

// call sites whose second operand is a compile-time constant (the compiler may specialise an inline function for it): every call form
template <uint64_t K>
static void literal_sites(Report &rep, uint64_t a)
{
    const El ea = mk(a);
    uint64_t e = orc::mul(a, K), es = orc::add(a, K), ed = orc::sub(a, K);
    auto bad = [&](const char *op, const char *form, uint64_t got, uint64_t exp) {
        rep.violation(std::string("C01:") + op + ":literal-operand:" + form + ":wrong-value", J().str("op", op).str("form", form).h("a", a).h("literal", K).h("got_raw", got).h("expected", exp).done());
    };
    El r = mk(0x1234);
    if (orc::canon(Goldilocks::mulScalar(ea, K).fe) != e) bad("mulScalar", "ret", Goldilocks::mulScalar(ea, K).fe, e);
    Goldilocks::mulScalar(r, ea, K);
    if (orc::canon(r.fe) != e) bad("mulScalar", "ref", r.fe, e);
    El x = ea;
    Goldilocks::mulScalar(x, x, K);
    if (orc::canon(x.fe) != e) bad("mulScalar", "out=a", x.fe, e);
    const El ek = mk(K);
    x = ea; Goldilocks::mul(x, x, ek); if (orc::canon(x.fe) != e) bad("mul", "out=a", x.fe, e);
    x = ea; Goldilocks::mul(x, ek, x); if (orc::canon(x.fe) != e) bad("mul", "out=b", x.fe, e);
    x = ea; Goldilocks::add(x, x, ek); if (orc::canon(x.fe) != es) bad("add", "out=a", x.fe, es);
    x = ea; Goldilocks::sub(x, x, ek); if (orc::canon(x.fe) != ed) bad("sub", "out=a", x.fe, ed);
    if (orc::canon(Goldilocks::mul(ea, ek).fe) != e) bad("mul", "ret", Goldilocks::mul(ea, ek).fe, e);
    if (orc::canon(Goldilocks::add(ea, ek).fe) != es) bad("add", "ret", Goldilocks::add(ea, ek).fe, es);
    if (orc::canon(Goldilocks::sub(ea, ek).fe) != ed) bad("sub", "ret", Goldilocks::sub(ea, ek).fe, ed);
    rep.evaluations += 10;
}
static void literal_family(Report &rep, uint64_t a)
{
    literal_sites<0>(rep, a); literal_sites<1>(rep, a); literal_sites<2>(rep, a); literal_sites<3>(rep, a); literal_sites<4>(rep, a);
    literal_sites<5>(rep, a); literal_sites<7>(rep, a); literal_sites<8>(rep, a); literal_sites<16>(rep, a); literal_sites<255>(rep, a);
    literal_sites<256>(rep, a); literal_sites<0xFFFFFFFFULL>(rep, a); literal_sites<0x100000000ULL>(rep, a); literal_sites<0xFFFFFFFF00000000ULL>(rep, a);
    literal_sites<0xFFFFFFFF00000001ULL>(rep, a); literal_sites<0xFFFFFFFF00000002ULL>(rep, a); literal_sites<0xFFFFFFFFFFFFFFFFULL>(rep, a);
    literal_sites<0x8000000000000000ULL>(rep, a);
}

static void run(const vf::Args &args, Report &rep)
{
    Ctx c(rep);
    Rng rng(vf::mix64(args.seed, 0xC01 + args.shard * 7919));
    gen::G64 g;
    if (!args.replay.empty())
    {
        uint64_t a = 0, b = 0;
        sscanf(args.replay.c_str(), "%lx:%lx", &a, &b);
        run_pair(c, "replay", a, b);
        alias_check(c, a, b);
        return;
    }
    // ---- directed families run on shard 0 only (seed independent), partitioned by index otherwise
    const std::vector<uint64_t> &F = g.fixed; // B0 + limb lattice
    uint64_t idx = 0;
    auto mine = [&](uint64_t i) { return (int)(i % args.nshards) == args.shard; };
    for (size_t i = 0; i < F.size(); i++, idx++)
        if (mine(idx)) { literal_family(rep, F[i]); rep.cls("family:literal_operand_call_sites"); }
    for (int i = 0; i < 2000; i++) { literal_family(rep, g.pick(rng)); rep.cls("family:literal_operand_call_sites"); }
    for (size_t i = 0; i < F.size(); i++)
        for (size_t j = 0; j < F.size(); j++, idx++)
            if (mine(idx))
            {
                run_pair(c, "fixed_x_fixed", F[i], F[j]);
                alias_check(c, F[i], F[j]);
                rep.cls("family:fixed_x_fixed");
            }
    // solve-for: add   b = S - a
    {
        const u128 S[] = {((u128)1 << 64) - 1, (u128)1 << 64, ((u128)1 << 64) + 1, ((u128)1 << 64) + 0xFFFFFFFFULL,
                          ((u128)1 << 65) - ((u128)1 << 32) - 1, ((u128)1 << 65) - ((u128)1 << 32), ((u128)1 << 65) - ((u128)1 << 32) + 1,
                          ((u128)1 << 65) - ((u128)1 << 32) + 2, ((u128)1 << 65) - 2, (u128)PP, (u128)PP - 1, (u128)PP + 1, (u128)2 * PP, (u128)2 * PP - 1, (u128)2 * PP + 1};
        Rng r2(0xADD);
        for (unsigned si = 0; si < sizeof(S) / sizeof(S[0]); si++)
            for (int t = 0; t < 4000; t++, idx++)
            {
                uint64_t a = t < (int)F.size() ? F[t] : g.pick(r2);
                if (!mine(idx)) continue;
                u128 d = S[si] - a;
                if (S[si] < a || (d >> 64)) continue;
                run_pair(c, "solve_add", a, (uint64_t)d);
                rep.cls("family:solve_add");
            }
    }
    // solve-for: sub   second borrow needs a < 2^32-1 and b - a >= p ... a - b mod 2^64 < 2^32-1
    {
        Rng r2(0x5B);
        for (int t = 0; t < 60000; t++, idx++)
        {
            uint64_t a = r2.below(6) == 0 ? r2.below(0xFFFFFFFFULL) : r2.below(16);
            uint64_t d = r2.below(0xFFFFFFFFULL + 4); // a - b mod 2^64 = d  => b = a - d
            if (r2.below(4) == 0) d = 0xFFFFFFFFULL - 2 + r2.below(5);
            uint64_t b = a - d; // wraps
            if (!mine(idx)) continue;
            run_pair(c, "solve_sub", a, b);
            rep.cls("family:solve_sub");
        }
    }
    // solve-for: mul
    {
        Rng r2(0x301);
        // (i) a=u*2^48, b=v*2^48 -> lo = 0 (when (u*v)<<96 overflows pattern), hi patterns
        for (int t = 0; t < 40000; t++, idx++)
        {
            uint64_t u = r2.below(65536), v = r2.below(65536);
            unsigned sa = 32 + (unsigned)r2.below(17), sb = 32 + (unsigned)r2.below(17);
            uint64_t a = u << sa, b = v << sb;
            if (!mine(idx)) continue;
            run_pair(c, "solve_mul_shifted", a, b);
            rep.cls("family:solve_mul_shifted");
        }
        // (ii) a = 2^64-u, b = 2^64-v
        for (int t = 0; t < 40000; t++, idx++)
        {
            uint64_t u = 1 + r2.below(r2.coin() ? 16 : 0x200000000ULL), v = 1 + r2.below(r2.coin() ? 16 : 0x200000000ULL);
            if (!mine(idx)) continue;
            run_pair(c, "solve_mul_top", 0 - u, 0 - v);
            rep.cls("family:solve_mul_top");
        }
        // (iii) b = ceil(T/a) / floor(T/a) for target 128-bit patterns T
        for (int t = 0; t < 200000; t++, idx++)
        {
            uint64_t hi_hi, hi_lo, lo;
            switch (r2.below(6))
            {
            case 0: hi_hi = r2.next() & 0xFFFFFFFF; hi_lo = 0xFFFFFFFF; lo = ~r2.below(1ULL << 33); break;
            case 1: hi_hi = 0xFFFFFFFF - r2.below(3); hi_lo = r2.next() & 0xFFFFFFFF; lo = r2.below(1ULL << 34); break;
            case 2: hi_hi = r2.next() & 0xFFFFFFFF; hi_lo = r2.below(3); lo = r2.below(1ULL << 33); break;
            case 3: hi_hi = r2.next() & 0xFFFFFFFF; hi_lo = r2.next() & 0xFFFFFFFF; lo = (hi_hi - hi_lo * 0xFFFFFFFFULL) + r2.below(5) - 2; break; // result near 0
            case 4: hi_hi = 0; hi_lo = 0xFFFFFFFF - r2.below(2); lo = ~r2.below(1ULL << 32); break;
            default: hi_hi = r2.next() & 0xFFFFFFFF; hi_lo = 0xFFFFFFFF; lo = r2.next(); break;
            }
            u128 T = ((u128)((hi_hi << 32) | hi_lo) << 64) | lo;
            uint64_t a = g.pick(r2) | (1ULL << (32 + r2.below(32)));
            u128 q = T / a;
            if (q >> 64) { a |= 1ULL << 63; q = T / a; }
            if (q >> 64) continue;
            if (!mine(idx)) continue;
            run_pair(c, "solve_mul_target", a, (uint64_t)q);
            run_pair(c, "solve_mul_target", a, (uint64_t)q + 1);
            rep.cls("family:solve_mul_target", 2);
        }
    }
    // inc/dec neighbourhoods
    {
        const uint64_t centres[] = {0, PP - 2, PP - 1, PP, 0xFFFFFFFFFFFFFFFFULL, 0xFFFFFFFFULL, 0x100000000ULL};
        for (uint64_t ce : centres)
            for (int d = -4; d <= 4; d++, idx++)
                if (mine(idx))
                {
                    run_pair(c, "incdec_neighbourhood", ce + (uint64_t)(int64_t)d, 1);
                    rep.cls("family:incdec_neighbourhood");
                }
    }
    // sparse-signed pairs
    {
        uint64_t n = args.getu("sparse", args.thorough() ? 40000000 : 4000000) / args.nshards;
        for (uint64_t t = 0; t < n; t++)
        {
            uint64_t a = gen::sparse(rng), b = gen::sparse(rng);
            run_pair(c, "sparse_signed", a, b);
            if ((t & 15) == 0) alias_check(c, a, b);
        }
        rep.cls("family:sparse_signed", n);
    }
    // the same operations issued concurrently from several threads, each with its own operands: a pure function must not
    // depend on state left behind by (or shared with) another caller
    {
        uint64_t n = args.getu("concurrent", args.thorough() ? 40000000ULL : 4000000ULL) / args.nshards;
        struct Bad { bool set = false; const char *op = ""; uint64_t a = 0, b = 0, got = 0, exp = 0; };
        const int T = 8;
        Bad bad[T];
        uint64_t seeds[T];
        for (int t = 0; t < T; t++) seeds[t] = vf::mix64(args.seed, 0xC0C0 + args.shard * 131 + t);
        vf::team(T, [&](int me_) {
            int me = me_;
            Rng q(seeds[me % T]);
            Bad &mine_bad = bad[me % T];
            for (uint64_t t = 0; t < n / T; t++)
            {
                uint64_t a = g.pick(q), b = g.pick(q);
                const El ea = mk(a), eb = mk(b);
                struct { const char *op; uint64_t got, exp; } r[] = {
                    {"add", Goldilocks::add(ea, eb).fe, orc::add(a, b)}, {"sub", Goldilocks::sub(ea, eb).fe, orc::sub(a, b)},
                    {"mul", Goldilocks::mul(ea, eb).fe, orc::mul(a, b)}, {"mulScalar", Goldilocks::mulScalar(ea, b).fe, orc::mul(a, b)},
                    {"square", Goldilocks::square(ea).fe, orc::mul(a, a)}, {"neg", Goldilocks::neg(ea).fe, orc::neg(a)},
                    {"inc", Goldilocks::inc(ea).fe, orc::add(a, 1)}, {"dec", Goldilocks::dec(ea).fe, orc::sub(a, 1)}};
                for (auto &x : r)
                    if (orc::canon(x.got) != x.exp && !mine_bad.set) { mine_bad.set = true; mine_bad.op = x.op; mine_bad.a = a; mine_bad.b = b; mine_bad.got = x.got; mine_bad.exp = x.exp; }
            }
        });
        for (int t = 0; t < T; t++)
            if (bad[t].set)
                rep.violation(std::string("C01:") + bad[t].op + ":concurrent-callers:wrong-value", J().str("op", bad[t].op).str("what", "8 threads calling the scalar operations at the same time, each on its own operands").h("a", bad[t].a).h("b", bad[t].b).h("got_raw", bad[t].got).h("expected", bad[t].exp).i("thread", t).done());
        rep.evaluations += n / T * T;
        rep.cls("family:concurrent_callers", n / T * T);
    }
    // mixed generator filler (all of (a)-(e))
    {
        uint64_t n = args.getu("random", args.thorough() ? 20000000000ULL : 200000000ULL) / args.nshards;
        for (uint64_t t = 0; t < n; t++)
        {
            uint64_t a = g.pick(rng), b = g.pick(rng);
            run_pair(c, "mixed_random", a, b);
            if ((t & 63) == 0) alias_check(c, a, b);
        }
        rep.cls("family:mixed_random", n);
    }
}
} // namespace c01

// ============================================================================================ C10
namespace c10 {

static void check_inv(Report &rep, uint64_t a, const char *family)
{
    rep.evaluations++;
    El ea = mk(a);
    El r = Goldilocks::inv(ea);
    El r2 = mk(0x1234);
    Goldilocks::inv(r2, ea);
    El x = ea;
    Goldilocks::inv(x, x); // out == in
    uint64_t e = orc::inv(a);
    if (orc::mul(cn(r), a) != 1 || cn(r) != e)
        rep.violation(std::string("C10:inv:ret:wrong-value"), J().str("family", family).h("a", a).h("got", r.fe).h("expected", e).done());
    if (cn(r2) != e)
        rep.violation(std::string("C10:inv:ref:wrong-value"), J().str("family", family).h("a", a).h("got", r2.fe).h("expected", e).done());
    if (cn(x) != e)
        rep.violation(std::string("C10:inv:out=in:wrong-value"), J().str("family", family).h("a", a).h("got", x.fe).h("expected", e).done());
    if (a >= PP) { rep.cls("inv:noncanonical_operand"); }
    rep.cls(std::string("family:") + family);
    rep.nontrivial(vf::mix64(a, 0x10));
    rep.sample(family, J().str("op", "inv").h("a", a).done());
}
static void check_div(Report &rep, uint64_t a, uint64_t b, const char *family)
{
    rep.evaluations++;
    El ea = mk(a), eb = mk(b);
    El q = Goldilocks::div(ea, eb);
    El q2 = mk(0x55);
    Goldilocks::div(q2, ea, eb);
    El q3 = ea / eb;
    El x = ea;
    Goldilocks::div(x, x, eb);
    El y = eb;
    Goldilocks::div(y, ea, y);
    uint64_t e = orc::mul(a, orc::inv(b));
    if (orc::mul(cn(q), b) != orc::canon(a) || cn(q) != e || cn(q2) != e || cn(q3) != e || cn(x) != e || cn(y) != e)
        rep.violation("C10:div:wrong-value", J().str("family", family).h("a", a).h("b", b).h("ret", q.fe).h("ref", q2.fe).h("op/", q3.fe).h("out=a", x.fe).h("out=b", y.fe).h("expected", e).done());
    rep.nontrivial(vf::mix64(a, b));
}
static void check_exp(Report &rep, uint64_t b, uint64_t e, const char *family)
{
    rep.evaluations++;
    El r = Goldilocks::exp(mk(b), e);
    El r2 = mk(77);
    Goldilocks::exp(r2, mk(b), e);
    uint64_t ex = orc::pw(b, e);
    if (cn(r) != ex || cn(r2) != ex)
        rep.violation(std::string("C10:exp:wrong-value:") + (e == 0 ? "exp0" : "expN"), J().str("family", family).h("base", b).h("exp", e).h("ret", r.fe).h("ref", r2.fe).h("expected", ex).done());
    rep.cls(e == 0 ? "exp:exponent_zero" : (e == 1 ? "exp:exponent_one" : "exp:general"));
    if (b >= PP) rep.cls("exp:noncanonical_base");
    if (orc::canon(b) == 0) rep.cls("exp:zero_base");
    rep.nontrivial(vf::mix64(b, e ^ 0xE));
    rep.sample(family, J().str("op", "exp").h("base", b).h("exp", e).done());
}

// refusal: the call must not return a value
static void check_refusal(Report &rep, const vf::Args &args)
{
    struct Case { const char *name; int kind; uint64_t a, b; } cases[] = {
        {"inv(0)", 0, 0, 0}, {"inv(p)", 0, PP, 0}, {"inv_ref(0)", 1, 0, 0}, {"inv_ref(p)", 1, PP, 0},
        {"div(5,0)", 2, 5, 0}, {"div(5,p)", 2, 5, PP}, {"div_ref(0,0)", 3, 0, 0}, {"div_ref(7,p)", 3, 7, PP}, {"op/(1,p)", 4, 1, PP}};
    for (int warm = 0; warm < 2; warm++)
    for (auto &cs : cases)
    {
        rep.evaluations++;
        int pfd[2], efd[2];
        if (pipe(pfd) || pipe(efd)) continue;
        fflush(NULL);
        pid_t pid = fork();
        if (pid == 0)
        {
            close(pfd[0]); close(efd[0]);
            dup2(efd[1], 2);
            El r = mk(0);
            if (warm)
            {
                // the refusal must not depend on what was inverted before in this process / thread
                volatile uint64_t sink = 0;
                for (uint64_t k = 2; k < 40; k++) sink += Goldilocks::inv(mk(k * 0x9E3779B97F4A7C15ULL | 1)).fe + Goldilocks::div(mk(10), mk(k)).fe;
                (void)sink;
            }
            switch (cs.kind)
            {
            case 0: r = Goldilocks::inv(mk(cs.a)); break;
            case 1: Goldilocks::inv(r, mk(cs.a)); break;
            case 2: r = Goldilocks::div(mk(cs.a), mk(cs.b)); break;
            case 3: Goldilocks::div(r, mk(cs.a), mk(cs.b)); break;
            case 4: r = mk(cs.a) / mk(cs.b); break;
            }
            // reaching this point means a value was returned
            char m[32];
            int n = snprintf(m, sizeof m, "R%016lx", (unsigned long)r.fe);
            ssize_t w = write(pfd[1], m, n);
            (void)w;
            _exit(0);
        }
        close(pfd[1]); close(efd[1]);
        char buf[64] = {0}, ebuf[512] = {0};
        ssize_t n = read(pfd[0], buf, sizeof buf - 1);
        ssize_t en = read(efd[0], ebuf, sizeof ebuf - 1);
        int st = 0;
        waitpid(pid, &st, 0);
        close(pfd[0]); close(efd[0]);
        bool returned = n > 0;
        bool nonzero = !(WIFEXITED(st) && WEXITSTATUS(st) == 0);
        bool diag = en > 0;
        if (returned || !nonzero || !diag)
            rep.violation(std::string("C10:refusal:") + cs.name + (warm ? ":after-successful-inversions" : ""), J().str("case", cs.name).b("after_successful_inversions_in_the_same_process", warm).b("returned_a_value", returned).str("marker", buf).b("nonzero_exit", nonzero).b("diagnostic_on_stderr", diag).done());
        rep.cls(warm ? "refusal:cases_after_successful_inversions" : "refusal:cases");
        rep.nontrivial(vf::mix64(cs.kind * 2 + warm, cs.a ^ cs.b));
        rep.sample("refusal", J().str("case", cs.name).b("nonzero_exit", nonzero).str("stderr", std::string(ebuf).substr(0, 60)).done());
    }
    (void)args;
}

static void run(const vf::Args &args, Report &rep)
{
    gen::G64 g;
    Rng rng(vf::mix64(args.seed, 0xC10 + args.shard * 104729));
    // directed operand list for inv
    std::vector<uint64_t> D;
    for (uint64_t v : g.fixed) if (orc::canon(v) != 0) D.push_back(v);
    // Fibonacci neighbours (all quotients 1: longest Euclid chains)
    {
        uint64_t f0 = 1, f1 = 2;
        while (f1 < PP && f1 > f0) { D.push_back(f1); D.push_back(PP - f1); uint64_t t = f0 + f1; if (t < f1) break; f0 = f1; f1 = t; }
    }
    for (uint64_t k = 1; k < 300; k++) { D.push_back(PP / k); D.push_back(PP / k + 1); if (PP / k > 1) D.push_back(PP / k - 1); }
    // operands whose Euclid remainder sequence against p is long (p/a close to the golden ratio: all quotients 1 for many steps);
    // found by counting division steps in a neighbourhood of p/phi and of p/phi^2, the longest 400 are kept (typically 65..80 steps)
    {
        auto steps = [](uint64_t a) { uint64_t r0 = PP, r1 = a; int n = 0; while (r1) { uint64_t t = r0 % r1; r0 = r1; r1 = t; n++; } return n; };
        const long double phi = 1.6180339887498948482L;
        std::vector<std::pair<int, uint64_t>> cand;
        for (uint64_t base : {(uint64_t)((long double)PP / phi), (uint64_t)((long double)PP / (phi * phi))})
            for (int64_t k = -60000; k <= 60000; k++)
            {
                uint64_t a = base + (uint64_t)(k * 4099); // spread over +-2^28
                cand.push_back({steps(a), a});
            }
        std::sort(cand.begin(), cand.end(), [](const std::pair<int, uint64_t> &x, const std::pair<int, uint64_t> &y) { return x.first > y.first; });
        for (size_t i = 0; i < 400 && i < cand.size(); i++) { D.push_back(cand[i].second); D.push_back(PP - cand[i].second); }
        if (args.shard == 0) rep.cls("inv:longest_euclid_chain_steps_in_directed_family", (uint64_t)cand[0].first);
        if (args.shard == 0) rep.cls("inv:long_euclid_chain_operands(>=65 steps)", (uint64_t)std::count_if(cand.begin(), cand.begin() + 400, [](const std::pair<int, uint64_t> &x) { return x.first >= 65; }));
    }
    for (int k = 0; k < 64; k++) { D.push_back(1ULL << k); D.push_back((1ULL << k) + 1); if (k) D.push_back((1ULL << k) - 1); }
    // non-canonical aliases of small values
    for (uint64_t k = 1; k < 64; k++) D.push_back(PP + k);
    D.push_back(0xFFFFFFFFFFFFFFFFULL);
    {
        std::vector<uint64_t> D2;
        for (uint64_t v : D) if (orc::canon(v) != 0) D2.push_back(v);
        D = D2;
        gen::uniq(D);
    }
    vf::ForkCfg fc;
    fc.group = 4096; fc.case_timeout = 60; fc.nofork = args.nofork; fc.errdir = args.errdir; fc.family = "inv_directed";
    auto mine = [&](uint64_t i) { return (int)(i % args.nshards) == args.shard; };
    vf::run_forked(rep, D.size(), fc,
        [&](uint64_t i) { return J().str("op", "inv").h("a", D[i]).done(); },
        [&](uint64_t) { return std::string("C10:inv"); },
        [&](uint64_t i, Report &r) {
            check_inv(r, D[i], "inv_directed");
            check_div(r, D[(i * 7 + 3) % D.size()], D[i], "div_directed");
            check_div(r, 0, D[i], "div_directed");
        }, mine);
    // exp directed
    {
        const uint64_t E[] = {0, 1, 2, 3, 7, PP - 2, PP - 1, PP, PP + 1, 1ULL << 63, (1ULL << 63) - 1, 0xFFFFFFFFFFFFFFFFULL, 0xFFFFFFFFULL, 1ULL << 32};
        uint64_t idx = 0;
        for (uint64_t b : g.fixed)
            for (uint64_t e : E)
                if (mine(idx++)) { check_exp(rep, b, e, "exp_directed"); rep.cls("family:exp_directed"); }
    }
    if (args.shard == 0) check_refusal(rep, args);
    // random filler in forked groups (hang attribution)
    uint64_t n = args.getu("random", args.thorough() ? 400000000ULL : 6000000ULL) / args.nshards;
    uint64_t chunk = 100000;
    uint64_t nchunks = (n + chunk - 1) / chunk;
    fc.group = 1; fc.case_timeout = args.thorough() ? 600 : 90; fc.family = "inv_random";
    uint64_t base_seed = vf::mix64(args.seed, 0x1000 + args.shard);
    vf::run_forked(rep, nchunks, fc,
        [&](uint64_t i) { return J().str("op", "inv/div/exp random chunk").u("chunk", i).u("seed", base_seed).done(); },
        [&](uint64_t) { return std::string("C10:inv:random"); },
        [&](uint64_t i, Report &r) {
            Rng q(vf::mix64(base_seed, i));
            for (uint64_t t = 0; t < chunk; t++)
            {
                uint64_t a = g.pick(q);
                if (orc::canon(a) == 0) continue;
                check_inv(r, a, "inv_random");
                if ((t & 3) == 0) check_div(r, g.pick(q), a, "div_random");
                if ((t & 7) == 0) check_exp(r, g.pick(q), (t & 8) ? g.pick(q) : q.next() >> q.below(64), "exp_random");
            }
        });
    // concurrent callers (after every forked family: the parent must not start an OpenMP team before a fork)
    {
        const int T = 8;
        uint64_t nc = args.getu("concurrent", args.thorough() ? 4000000ULL : 400000ULL) / args.nshards / T + 1;
        struct Bad { const char *op = nullptr; uint64_t a = 0, b = 0; } bad[T];
        uint64_t seeds[T];
        for (int t = 0; t < T; t++) seeds[t] = vf::mix64(args.seed, 0x10CC + args.shard * 131 + t);
        vf::team(T, [&](int me_) {
            int me = me_;
            Rng q(seeds[me]);
            for (uint64_t t = 0; t < nc; t++)
            {
                uint64_t a = g.pick(q), b = g.pick(q);
                if (orc::canon(a) == 0) a = 7;
                uint64_t ia = orc::inv(a);
                if (cn(Goldilocks::inv(mk(a))) != ia && !bad[me].op) { bad[me].op = "inv"; bad[me].a = a; }
                if (cn(Goldilocks::div(mk(b), mk(a))) != orc::mul(b, ia) && !bad[me].op) { bad[me].op = "div"; bad[me].a = b; bad[me].b = a; }
                if ((t & 3) == 0 && cn(Goldilocks::exp(mk(a), b)) != orc::pw(a, b) && !bad[me].op) { bad[me].op = "exp"; bad[me].a = a; bad[me].b = b; }
            }
        });
        for (int t = 0; t < T; t++)
            if (bad[t].op) rep.violation(std::string("C10:") + bad[t].op + ":concurrent-callers:wrong-value", J().str("op", bad[t].op).h("a", bad[t].a).h("b", bad[t].b).str("what", "8 threads calling the operation at the same time on their own operands").done());
        rep.evaluations += nc * T;
        rep.cls("family:concurrent_callers", nc * T);
    }
}
} // namespace c10

// ============================================================================================ C15
namespace c15 {

struct Z
{ // GMP floor-mod oracle
    mpz_class p;
    Z() : p("18446744069414584321") {}
    uint64_t residue(const mpz_class &x) const
    {
        mpz_class r;
        mpz_fdiv_r(r.get_mpz_t(), x.get_mpz_t(), p.get_mpz_t());
        return orc::Gmp::get64(r.get_mpz_t());
    }
};

static inline int64_t centred(uint64_t canon) { return canon <= (PP - 1) / 2 ? (int64_t)canon : -(int64_t)(PP - canon); }

static void check_out(Report &rep, uint64_t raw, const char *family)
{
    // outward conversions of an arbitrary representation
    El e = mk(raw);
    uint64_t c = orc::canon(raw);
    uint64_t u = Goldilocks::toU64(e), u2 = 1;
    Goldilocks::toU64(u2, e);
    if (u != c || u2 != c) rep.violation("C15:toU64:not-canonical", J().str("family", family).h("raw", raw).h("got", u).h("got_ref", u2).h("expected", c).done());
    {
        // in-place forms: the result word IS the element's own word
        El x = mk(raw);
        Goldilocks::toU64(x.fe, x);
        if (x.fe != c) rep.violation("C15:toU64:result-is-the-operand-word:not-canonical", J().str("family", family).h("raw", raw).h("got", x.fe).h("expected", c).done());
        El y = mk(raw);
        Goldilocks::toS64(*reinterpret_cast<int64_t *>(&y.fe), y);
        if ((int64_t)y.fe != centred(c)) rep.violation("C15:toS64:result-is-the-operand-word:not-centred", J().str("family", family).h("raw", raw).i("got", (int64_t)y.fe).i("expected", centred(c)).done());
        rep.cls("forms:result_is_the_operand_word");
    }
    int64_t s = Goldilocks::toS64(e), s2 = 1;
    Goldilocks::toS64(s2, e);
    if (s != centred(c) || s2 != centred(c)) rep.violation("C15:toS64:not-centred", J().str("family", family).h("raw", raw).i("got", s).i("got_ref", s2).i("expected", centred(c)).done());
    int32_t t = 0x5A5A5A5A;
    int64_t ce = centred(c);
    bool inrange = ce >= -(int64_t)2147483648LL && ce <= 2147483647LL;
    int saved = -1;
    if (!inrange) { saved = dup(2); int dn = open("/dev/null", O_WRONLY); dup2(dn, 2); close(dn); } // the library prints a diagnostic per rejected value
    bool ok = Goldilocks::toS32(t, e);
    if (saved >= 0) { dup2(saved, 2); close(saved); }
    if (ok != inrange) rep.violation(std::string("C15:toS32:success-flag:") + (inrange ? "rejects-in-range" : "accepts-out-of-range"), J().str("family", family).h("raw", raw).i("centred", ce).b("success", ok).done());
    else if (ok && t != (int32_t)ce) rep.violation("C15:toS32:wrong-value", J().str("family", family).h("raw", raw).i("centred", ce).i("got", t).done());
    rep.cls(inrange ? "toS32:in_range" : "toS32:out_of_range");
    if (ce == -(int64_t)2147483648LL) rep.cls("toS32:int32_min");
    if (ce == 2147483647LL) rep.cls("toS32:int32_max");
    // predicates
    bool z = Goldilocks::isZero(e), o = Goldilocks::isOne(e), n = Goldilocks::isNegone(e);
    if (z != (c == 0) || o != (c == 1) || n != (c == PP - 1))
        rep.violation("C15:predicate:representation-dependent", J().str("family", family).h("raw", raw).b("isZero", z).b("isOne", o).b("isNegone", n).done());
    if (raw >= PP) rep.cls("out:noncanonical_representation");
}

static void check_s32(Report &rep, int32_t x, const char *family)
{
    rep.evaluations++;
    El e = Goldilocks::fromS32(x), e2 = mk(0);
    Goldilocks::fromS32(e2, x);
    uint64_t exp = x >= 0 ? (uint64_t)x : PP - (uint64_t)(-(int64_t)x);
    if (cn(e) != exp || cn(e2) != exp) { rep.violation("C15:fromS32:wrong-residue", J().str("family", family).i("x", x).h("got", e.fe).h("expected", exp).done()); return; }
    if (Goldilocks::toU64(e) != exp) rep.violation("C15:fromS32-toU64:mismatch", J().i("x", x).done());
    if (Goldilocks::toS64(e) != (int64_t)x) rep.violation("C15:fromS32-toS64:round-trip", J().str("family", family).i("x", x).i("got", Goldilocks::toS64(e)).done());
    int32_t back = 0x5A5A5A5A;
    int saved = -1;
    if (x == INT32_MIN) { saved = dup(2); int dn = open("/dev/null", O_WRONLY); dup2(dn, 2); close(dn); } // a rejection prints a diagnostic
    bool ok = Goldilocks::toS32(back, e);
    if (saved >= 0) { dup2(saved, 2); close(saved); }
    if (!ok) rep.violation(std::string("C15:fromS32-toS32:rejected:") + (x == INT32_MIN ? "INT32_MIN" : "other"), J().str("family", family).i("x", x).done());
    else if (back != x) rep.violation("C15:fromS32-toS32:round-trip", J().str("family", family).i("x", x).i("got", back).done());
    if (x < 0) rep.cls("fromS32:negative");
    if (x == INT32_MIN) rep.cls("fromS32:int32_min");
}
static void check_s64(Report &rep, int64_t x, const char *family)
{
    rep.evaluations++;
    El e = Goldilocks::fromS64(x), e2 = mk(0);
    Goldilocks::fromS64(e2, x);
    // floor mod via u128
    uint64_t exp;
    if (x >= 0) exp = (uint64_t)x % PP;
    else { u128 m = (u128)(uint64_t)(-(x + 1)) + 1; uint64_t r = (uint64_t)(m % PP); exp = r ? PP - r : 0; }
    if (cn(e) != exp || cn(e2) != exp) { rep.violation("C15:fromS64:wrong-residue", J().str("family", family).i("x", x).h("got", e.fe).h("expected", exp).done()); return; }
    bool inrange = (x >= 0 ? (uint64_t)x : (uint64_t)(-(x + 1)) + 1) <= (PP - 1) / 2;
    if (inrange && Goldilocks::toS64(e) != x) rep.violation("C15:fromS64-toS64:round-trip", J().str("family", family).i("x", x).i("got", Goldilocks::toS64(e)).done());
    if (x < 0) rep.cls("fromS64:negative");
    if (!inrange) rep.cls("fromS64:beyond_centred_range");
    check_out(rep, e.fe, family);
}
static void check_u64(Report &rep, uint64_t x, const char *family)
{
    rep.evaluations++;
    El e = Goldilocks::fromU64(x), e2 = mk(1);
    Goldilocks::fromU64(e2, x);
    uint64_t exp = x % PP;
    if (cn(e) != exp || cn(e2) != exp) rep.violation("C15:fromU64:wrong-residue", J().str("family", family).h("x", x).h("got", e.fe).done());
    if (x < PP && Goldilocks::toU64(e) != x) rep.violation("C15:fromU64-toU64:round-trip", J().h("x", x).done());
    check_out(rep, x, family);
    // equality must depend on the residue class only
    uint64_t al;
    if (c01::alias_of(x, al))
    {
        rep.cls("equal:alias_pairs");
        if (!Goldilocks::equal(mk(x), mk(al)) || !(mk(x) == mk(al)))
            rep.violation("C15:equal:alias-not-equal", J().h("x", x).h("alias", al).done());
        if (Goldilocks::equal(mk(x), mk(al + 1)) && orc::canon(al + 1) != orc::canon(x))
            rep.violation("C15:equal:different-residues-equal", J().h("x", x).h("y", al + 1).done());
    }
    // toString round trip in a few radices
    if ((rep.evaluations & 15) == 0)
    {
        for (int radix : {2, 10, 16, 36, 7})
        {
            std::string s = Goldilocks::toString(mk(x), radix), s2;
            Goldilocks::toString(s2, mk(x), radix);
            mpz_class back(s, radix);
            if (s != s2 || back < 0 || orc::Gmp::get64(back.get_mpz_t()) != exp || mpz_sizeinbase(back.get_mpz_t(), 2) > 64)
                rep.violation("C15:toString:not-canonical", J().h("x", x).i("radix", radix).str("got", s).done());
            rep.cls("toString:radix_checked");
        }
    }
}
static void check_str(Report &rep, const Z &z, const mpz_class &v, int radix, bool upper, const char *family)
{
    rep.evaluations++;
    std::string s = v.get_str(radix);
    if (upper) for (auto &ch : s) ch = (char)toupper(ch);
    uint64_t exp = z.residue(v);
    El e = Goldilocks::fromString(s, radix), e2 = mk(3);
    Goldilocks::fromString(e2, s, radix);
    const char *band = v < -z.p ? "below_minus_p" : (v < 0 ? "negative" : (v < z.p ? "canonical_range" : "above_p"));
    rep.cls(std::string("fromString:") + band);
    if (cn(e) != exp || cn(e2) != exp)
        rep.violation(std::string("C15:fromString:wrong-residue:") + band, J().str("family", family).str("value", s.size() > 80 ? s.substr(0, 80) + "..." : s).i("radix", radix).h("got", e.fe).h("expected", exp).done());
    El f = Goldilocks::fromScalar(v), f2 = mk(3);
    Goldilocks::fromScalar(f2, v);
    if (cn(f) != exp || cn(f2) != exp)
        rep.violation(std::string("C15:fromScalar:wrong-residue:") + band, J().str("family", family).str("value", v.get_str(10).substr(0, 80)).h("got", f.fe).h("expected", exp).done());
    if (radix != 10) rep.cls("fromString:non_decimal_radix");
    rep.nontrivial(vf::mix64(exp, (uint64_t)radix * 2 + upper + mpz_sizeinbase(v.get_mpz_t(), 2) * 131));
    rep.sample(family, J().str("value", s.size() > 60 ? s.substr(0, 60) + "..." : s).i("radix", radix).done());
}

static void run(const vf::Args &args, Report &rep)
{
    gen::G64 g;
    Z z;
    Rng rng(vf::mix64(args.seed, 0xC15 + args.shard * 65537));
    auto mine = [&](uint64_t i) { return (int)(i % args.nshards) == args.shard; };
    uint64_t idx = 0;
    // ---- uint64 / representations
    for (uint64_t v : g.fixed) if (mine(idx++)) { check_u64(rep, v, "u64_fixed"); rep.nontrivial(vf::mix64(v, 1)); rep.sample("u64_fixed", J().h("x", v).done()); }
    // ---- int64 boundaries +-16
    {
        const int64_t C[] = {0, 2147483647LL, -2147483648LL, 4294967296LL, -4294967296LL, (int64_t)((PP - 1) / 2), -(int64_t)((PP - 1) / 2), INT64_MAX, INT64_MIN, 4294967295LL, -4294967295LL};
        for (int64_t ce : C)
            for (int d = -16; d <= 16; d++)
            {
                if ((ce == INT64_MAX && d > 0) || (ce == INT64_MIN && d < 0)) continue;
                if (mine(idx++)) { check_s64(rep, ce + d, "s64_boundary"); rep.nontrivial(vf::mix64((uint64_t)(ce + d), 2)); rep.sample("s64_boundary", J().i("x", ce + d).done()); }
            }
    }
    // ---- int32
    if (args.thorough() && args.get("int32", "exhaustive") == "exhaustive")
    {
        uint64_t lo = ((uint64_t)1 << 32) * args.shard / args.nshards, hi = ((uint64_t)1 << 32) * (args.shard + 1) / args.nshards;
        for (uint64_t k = lo; k < hi; k++) check_s32(rep, (int32_t)(uint32_t)k, "s32_exhaustive");
        rep.cls("family:s32_exhaustive", hi - lo);
        rep.cls("s32_exhaustive:complete_range_shards");
        for (uint64_t k = lo; k < lo + 20000; k++) rep.nontrivial(vf::mix64(k, 3));
        rep.sample("s32_exhaustive", J().u("from", lo).u("to_exclusive", hi).done());
    }
    else
    {
        // all values within 2^12 of every power-of-two boundary (both signs), plus random
        for (int k = 0; k <= 31; k++)
            for (int64_t d = -4096; d <= 4096; d++)
                for (int sg = -1; sg <= 1; sg += 2)
                {
                    int64_t v = sg * ((int64_t)1 << k) + d;
                    if (v < INT32_MIN || v > INT32_MAX) continue;
                    if (mine(idx++)) { check_s32(rep, (int32_t)v, "s32_boundary"); rep.nontrivial(vf::mix64((uint64_t)v, 3)); }
                }
        rep.sample("s32_boundary", J().i("x", INT32_MIN).done());
        uint64_t n = args.getu("random32", 3000000) / args.nshards;
        for (uint64_t t = 0; t < n; t++) check_s32(rep, (int32_t)rng.next(), "s32_random");
    }
    // ---- random u64 / s64 / representations
    {
        uint64_t n = args.getu("random", args.thorough() ? 60000000ULL : 3000000ULL) / args.nshards;
        for (uint64_t t = 0; t < n; t++)
        {
            uint64_t v = g.pick(rng);
            check_u64(rep, v, "u64_random");
            check_s64(rep, (int64_t)g.pick(rng), "s64_random");
            if ((t & 0xFF) == 0) rep.nontrivial(vf::mix64(v, 4));
        }
        // centred 32-bit window as elements (toS32 flag on both sides of the range, in both representations)
        for (int64_t d = -70000; d <= 70000; d++)
            for (int64_t ce : {(int64_t)2147483647LL, -(int64_t)2147483648LL})
            {
                if (!mine(idx++)) continue;
                int64_t v = ce + d;
                uint64_t canon = v >= 0 ? (uint64_t)v : PP - (uint64_t)(-v);
                rep.evaluations++;
                check_out(rep, canon, "toS32_window");
                if (canon < 0xFFFFFFFFULL) check_out(rep, canon + PP, "toS32_window");
            }
        rep.sample("toS32_window", J().str("around", "+-70000 of INT32_MAX and INT32_MIN, canonical and +p aliases").done());
    }
    // ---- strings / big integers
    {
        std::vector<mpz_class> C;
        mpz_class two64;
        mpz_ui_pow_ui(two64.get_mpz_t(), 2, 64);
        mpz_class t200;
        mpz_ui_pow_ui(t200.get_mpz_t(), 2, 200);
        for (const mpz_class &b : {mpz_class(0), z.p, mpz_class(-z.p), mpz_class(2 * z.p), mpz_class(-2 * z.p), two64, mpz_class(-two64), mpz_class(3 * z.p), mpz_class(-3 * z.p), t200, mpz_class(-t200), mpz_class(z.p * z.p), mpz_class(-z.p * z.p)})
            for (int d = -3; d <= 3; d++) C.push_back(b + d);
        for (size_t i = 0; i < C.size(); i++)
            for (int radix = 2; radix <= 36; radix++)
                for (int up = 0; up < 2; up++)
                    if (mine(idx++)) check_str(rep, z, C[i], radix, up, "string_boundary");
        uint64_t n = args.getu("strings", args.thorough() ? 4000000ULL : 200000ULL) / args.nshards;
        gmp_randclass rs(gmp_randinit_default);
        rs.seed((unsigned long)vf::mix64(args.seed, args.shard + 99));
        for (uint64_t t = 0; t < n; t++)
        {
            unsigned bits = 1 + (unsigned)rng.below(rng.coin() ? 70 : 200);
            mpz_class v = rs.get_z_bits(bits);
            if (rng.below(4) == 0) v = mpz_class(z.p * (long)rng.below(5)) + (long)rng.below(7) - 3;
            if (rng.coin()) v = -v;
            check_str(rep, z, v, 2 + (int)rng.below(35), rng.coin(), "string_random");
        }
        // the same literal read in several radices one right after the other (the value depends on both arguments)
        uint64_t nl = args.getu("literals", args.thorough() ? 400000ULL : 20000ULL) / args.nshards + 1;
        for (uint64_t t = 0; t < nl; t++)
        {
            static const int DMAX[] = {2, 2, 8, 10, 16, 30};
            int dmax = DMAX[rng.below(6)];
            int len = 1 + (int)rng.below(rng.coin() ? 6 : 40);
            std::string lit;
            if (rng.below(3) == 0) lit += '-';
            bool up = rng.coin();
            for (int i = 0; i < len; i++) { int d = (int)rng.below(dmax); if (i == 0 && len > 1 && d == 0) d = 1; lit += (char)(d < 10 ? '0' + d : (up ? 'A' : 'a') + d - 10); }
            int k = 2 + (int)rng.below(4);
            for (int j = 0; j < k; j++)
            {
                int radix = dmax + (int)rng.below(37 - dmax);
                mpz_class v(lit, radix);
                uint64_t exp = z.residue(v);
                El e = Goldilocks::fromString(lit, radix), e2 = mk(3);
                Goldilocks::fromString(e2, lit, radix);
                rep.evaluations++;
                if (cn(e) != exp || cn(e2) != exp)
                    rep.violation("C15:fromString:wrong-residue:same-literal-in-consecutive-radices", J().str("family", "same_literal_consecutive_radices").str("value", lit).i("radix", radix).i("call_in_sequence", j).h("got", e.fe).h("got_by_reference", e2.fe).h("expected", exp).done());
            }
            rep.cls("fromString:same_literal_in_consecutive_radices");
            rep.nontrivial(vf::mix64(std::hash<std::string>()(lit), 77));
            if (t < 3) rep.sample("same_literal_consecutive_radices", J().str("value", lit).done());
        }
    }
    // ---- concurrent callers: conversions in both directions from 8 threads, own values
    {
        const int T = 8;
        uint64_t nc = args.getu("concurrent", args.thorough() ? 1600000ULL : 160000ULL) / args.nshards / T + 1;
        struct Bad { const char *op = nullptr; uint64_t v = 0; } bad[T];
        uint64_t seeds[T];
        for (int t = 0; t < T; t++) seeds[t] = vf::mix64(args.seed, 0x15CC + args.shard * 131 + t);
        vf::team(T, [&](int me_) {
            int me = me_;
            Rng q(seeds[me]);
            for (uint64_t t = 0; t < nc; t++)
            {
                uint64_t v = g.pick(q);
                uint64_t c = orc::canon(v);
                auto flag = [&](const char *op) { if (!bad[me].op) { bad[me].op = op; bad[me].v = v; } };
                if (Goldilocks::toU64(mk(v)) != c) flag("toU64");
                if (Goldilocks::toS64(mk(v)) != centred(c)) flag("toS64");
                if (cn(Goldilocks::fromS64((int64_t)v)) != ((int64_t)v >= 0 ? v % PP : (PP - (uint64_t)(-(int64_t)(v + 1)) % PP - 1) % PP)) flag("fromS64");
                if ((t & 3) == 0)
                {
                    int radix = 2 + (int)q.below(35);
                    std::string sdec = Goldilocks::toString(mk(v), radix);
                    if (cn(Goldilocks::fromString(sdec, radix)) != c) flag("toString/fromString");
                    mpz_class zz;
                    mpz_import(zz.get_mpz_t(), 1, 1, 8, 0, 0, &v);
                    if (q.coin()) zz = -zz;
                    uint64_t e = mpz_sgn(zz.get_mpz_t()) >= 0 ? v % PP : (PP - v % PP) % PP;
                    if (cn(Goldilocks::fromScalar(zz)) != e) flag("fromScalar");
                }
                int64_t ce = centred(c);
                if (ce >= -2147483648LL && ce <= 2147483647LL) { int32_t o; if (!Goldilocks::toS32(o, mk(v)) || o != (int32_t)ce) flag("toS32"); }
                if (Goldilocks::isZero(mk(v)) != (c == 0) || Goldilocks::isOne(mk(v)) != (c == 1) || !Goldilocks::equal(mk(v), mk(c))) flag("predicates");
            }
        });
        for (int t = 0; t < T; t++)
            if (bad[t].op) rep.violation(std::string("C15:") + bad[t].op + ":concurrent-callers", J().str("op", bad[t].op).h("value", bad[t].v).str("what", "8 threads converting their own values at the same time").done());
        rep.evaluations += nc * T;
        rep.cls("family:concurrent_callers", nc * T);
    }
}
} // namespace c15

int main(int argc, char **argv)
{
    vf::Args args = vf::parse_args(argc, argv);
    Report rep;
    rep.open(args.prop, args.out);
    if (args.prop == "C01") c01::run(args, rep);
    else if (args.prop == "C10") c10::run(args, rep);
    else if (args.prop == "C15") c15::run(args, rep);
    else { fprintf(stderr, "unknown --prop\n"); return 3; }
    rep.finish();
    return 0;
}
