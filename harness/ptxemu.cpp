// C20: GPU field arithmetic (gl64_t) and device tables versus the CPU field.
//
// The real inline-PTX text of /repo/src/gl64_t.cuh is executed on the host: tools/ptx_rewrite.py turns
// every asm statement into ptx::exec("<same text>", outs, ins) and lib/ptx_interp.hpp interprets it.
// This translation unit is compiled four times: __CUDA_ARCH__ = 700 / 600, with and without
// GL64_PARTIALLY_REDUCED.  Every public operation of gl64_t is compared with the independent u128
// oracle on boundary-directed operand families; the three 33-entry device tables (extracted from
// ntt_goldilocks.cuh into gpu_tables_gen.hpp) are compared with the CPU table and the oracle.
//
// exit 0: ran to completion (violations, if any, are in --out); exit 2: harness failure (interpreter
// self-test failed, PTX outside the implemented subset, ...) -> the check is inconclusive.
#include "goldilocks_base_field.hpp"
#include "harness.hpp"
#include "oracle.hpp"
#include "gen.hpp"
#include <unordered_map>
#include <exception>

#include "gl64_t_host.hpp"      // generated: rewritten copy of gl64_t.cuh (+ ptx_interp.hpp)
#include "gpu_tables_gen.hpp"   // generated: omegas / omegas_inv / domain_size_inverse

using vf::J;
using vf::Report;
using vf::Rng;
typedef unsigned __int128 u128;
static const uint64_t PP = 0xFFFFFFFF00000001ULL;

#define C20_STR2(x) #x
#define C20_STR(x) C20_STR2(x)
static const char ARCHN[] = "arch" C20_STR(__CUDA_ARCH__);
#ifdef GL64_PARTIALLY_REDUCED
static const char VARN[] = "pr";
static const bool PRB = true;
#else
static const char VARN[] = "full";
static const bool PRB = false;
#endif

enum OpId
{
    OP_CTOR, OP_CTORP, OP_ADD, OP_ADDEQ, OP_ADDSELF, OP_SUB, OP_SUBEQ, OP_SUBSELF, OP_NEG, OP_CNEG0, OP_MUL, OP_MULEQ, OP_MULSELF, OP_SQR,
    OP_MULW, OP_MULWEQ, OP_REDUCE, OP_CONV, OP_STORE, OP_SHL, OP_SHR, OP_SHLSHR, OP_POWU, OP_POWI, OP_RECIP, OP_DIV, OP_HEPTA, OP_CSEL, OP_CZERO, OP_PRED, OP_DOT, OP_DOT8, NOPS
};
static const char *OPN[NOPS] = {"ctor", "ctor-ptr", "add", "add-assign", "add-self", "sub", "sub-assign", "sub-self", "neg", "cneg-false", "mul",
                                "mul-assign", "mul-self", "sqr", "mulw", "mulw-assign", "reduce", "convert", "store", "shl", "shr", "shl-then-shr", "pow-u32", "pow-int",
                                "reciprocal", "div", "heptaroot", "csel", "czero", "predicates", "dot-product", "dot-product-u8"};

static Report *g_rep = nullptr;
static void on_fatal(const char *msg)
{
    if (g_rep) g_rep->note("harness_failure", J().str("what", "ptx interpreter refused the asm text").str("message", msg).str("arch", ARCHN).str("variant", VARN).done());
}

struct Ctx
{
    Report &rep;
    std::string pre;    // violation-key prefix  C20:<arch>:<variant>:
    std::string cpre;   // class prefix          <arch>:<variant>:
    const char *family = "";
    const char *inrep = "canon";   // representation of the operands fed in: canon (< p) | pr (any 64-bit value)
    ptx::Trace tr;
    std::unordered_map<uint64_t, uint64_t> sigs;
    uint64_t opcount[NOPS] = {0};
    std::map<std::string, uint64_t> local;     // hot class counters, flushed at the end
    uint64_t pairs = 0;
    Ctx(Report &r) : rep(r)
    {
        pre = std::string("C20:") + ARCHN + ":" + VARN + ":";
        cpre = std::string(ARCHN) + ":" + VARN + ":";
    }
    inline void cls(const char *name, uint64_t n = 1) { local[name] += n; }
    void flush()
    {
        for (auto &kv : local) rep.cls(cpre + kv.first, kv.second);
        for (int i = 0; i < NOPS; i++)
            if (opcount[i]) rep.cls(cpre + "op:" + OPN[i], opcount[i]);
        // path signatures: short ones become classes; the full set goes into one "paths" line (the driver unions the sets of all
        // shards and reports the number of distinct signatures per operation)
        std::map<std::string, std::string> per_op;
        for (auto &kv : sigs)
        {
            uint64_t k = kv.first;
            unsigned op = (unsigned)(k >> 58), ncf = (unsigned)((k >> 52) & 63), ng = (unsigned)((k >> 48) & 15);
            uint64_t g = (k >> 40) & 0xFF, cfb = k & 0xFFFFFFFFFFULL;
            std::string s = "c";
            for (unsigned i = ncf; i-- > 0;) s += ((cfb >> i) & 1) ? '1' : '0';
            s += "g";
            for (unsigned i = ng; i-- > 0;) s += ((g >> i) & 1) ? '1' : '0';
            if (ncf + ng <= 6) rep.cls(cpre + "path:" + OPN[op] + ":" + s, kv.second);
            std::string &l = per_op[OPN[op]];
            if (!l.empty()) l += ",";
            l += "\"" + s + "\"";
        }
        if (!per_op.empty())
        {
            std::string o = "{";
            for (auto &kv : per_op) o += (o.size() > 1 ? "," : "") + vf::jstr(kv.first) + ":[" + kv.second + "]";
            o += "}";
            rep.note("paths", J().str("variant", std::string(ARCHN) + ":" + VARN).raw("signatures", o).done());
        }
        local.clear();
        sigs.clear();
    }
};

static inline gl64_t raw_el(uint64_t v)
{
    gl64_t x;
    x.set_val(v);
    return x;
}
static std::string sigstr(const ptx::Trace &t)
{
    std::string s = "c";
    for (unsigned i = std::min<unsigned>(t.ncf, 64); i-- > 0;) s += ((t.cfbits >> i) & 1) ? '1' : '0';
    s += "g";
    for (unsigned i = std::min<unsigned>(t.ng, 64); i-- > 0;) s += ((t.gbits >> i) & 1) ? '1' : '0';
    return s;
}

// run one operation with a fresh path trace
#define RUN(c, stmt)              \
    do                            \
    {                             \
        ptx::trace_reset();       \
        stmt;                     \
        (c).tr = ptx::trace();    \
    } while (0)

// compare one result with the oracle.  want is canonical.
//   full build: the stored value must BE the canonical result.
//   pr build:   the stored value must be congruent, and the public conversion must give the canonical result.
static inline void verify(Ctx &c, int op, uint64_t a, uint64_t b, const gl64_t &r, uint64_t want, bool sig = true)
{
    c.rep.evaluations++;
    c.opcount[op]++;
    const uint64_t raw = r.get_val();
    const ptx::Trace t = c.tr;
    if (sig && t.ncf <= 40 && t.ng <= 8)
    {
        uint64_t k = ((uint64_t)op << 58) | ((uint64_t)t.ncf << 52) | ((uint64_t)t.ng << 48) | ((t.gbits & 0xFF) << 40) | (t.cfbits & 0xFFFFFFFFFFULL);
        c.sigs[k]++;
        if (t.cfbits | t.gbits) c.rep.nontrivial(vf::mix64(vf::mix64(a, b), k));
    }
    const uint64_t conv = (uint64_t)r; // operator uint64_t(): from() + value
    const bool congruent = orc::canon(raw) == want;
    bool ok = PRB ? (congruent && conv == want) : (raw == want && conv == want);
    if (raw >= PP) c.cls("out:stored_value_ge_p");
    if (ok) return;
    const char *what = !congruent ? "wrong-value" : (!PRB && raw != want) ? "noncanonical-result" : "wrong-conversion";
    std::string key = c.pre + OPN[op] + (strcmp(c.inrep, "canon") ? std::string("@") + c.inrep + "-operands" : std::string()) + ":" + what;
    c.rep.violation(key, J().str("arch", ARCHN).str("variant", VARN).str("op", OPN[op]).str("family", c.family).str("operands", c.inrep)
                             .h("a", a).h("b", b).h("got_stored", raw).h("got_converted", conv).h("expected", want).str("path", sigstr(t)).done());
}
static inline void verify_u64(Ctx &c, int op, uint64_t a, uint64_t b, uint64_t got, uint64_t want, const char *what)
{
    c.rep.evaluations++;
    c.opcount[op]++;
    if (got == want) return;
    std::string key = c.pre + OPN[op] + (strcmp(c.inrep, "canon") ? std::string("@") + c.inrep + "-operands" : std::string()) + ":" + what;
    c.rep.violation(key, J().str("arch", ARCHN).str("variant", VARN).str("op", OPN[op]).str("family", c.family).str("operands", c.inrep)
                             .h("a", a).h("b", b).h("got", got).h("expected", want).done());
}

// ------------------------------------------------------------------------------------------ unary checks on any 64-bit value
// constructor (which reduces in the full build), final reduction to()/from(), conversion and store
static void check_value(Ctx &c, uint64_t x)
{
    const uint64_t want = x % PP;
    c.family = "single_value";
    c.inrep = x >= PP ? "ge_p" : "canon";
    c.cls(x >= PP ? "reduce:input_ge_p" : "reduce:input_lt_p");
    {
        gl64_t r;
        RUN(c, r = gl64_t(x));
        verify(c, OP_CTOR, x, 0, r, want);
        const uint64_t xs = x;
        RUN(c, r = gl64_t(&xs));
        verify(c, OP_CTORP, x, 0, r, want);
    }
    {
        // the final reduction proper: full build to(), partially reduced build from(); both must land on the canonical value
        gl64_t r = raw_el(x);
        RUN(c, { r.to(); r.from(); });
        c.rep.evaluations++;
        c.opcount[OP_REDUCE]++;
        if (r.get_val() != want)
            c.rep.violation(c.pre + "reduce:wrong-value", J().str("arch", ARCHN).str("variant", VARN).str("op", "to();from()").h("a", x).h("got_stored", r.get_val()).h("expected", want).str("path", sigstr(c.tr)).done());
        if (c.tr.ng == 1) c.cls(c.tr.gbits & 1 ? "reduce:subtraction_taken" : "reduce:subtraction_skipped");
    }
    if (PRB || x < PP)
    {
        gl64_t r = raw_el(x);
        uint64_t v = 0;
        RUN(c, v = (uint64_t)r);
        verify_u64(c, OP_CONV, x, 0, v, want, "wrong-conversion");
        uint64_t st = 0xDEADBEEFDEADBEEFULL;
        r.store(&st);
        verify_u64(c, OP_STORE, x, 0, st, want, "wrong-value");
        verify_u64(c, OP_PRED, x, 0, r.is_zero(), want == 0, "is_zero");
        verify_u64(c, OP_PRED, x, 1, r.is_one(), want == 1, "is_one");
    }
}

// ------------------------------------------------------------------------------------------ all operations on one operand pair
// a, b are the stored operand values.  pr_mul_only: (full build) only the multiplication family, which the header
// documents as tolerant of partially reduced multiplicands in either variant.
static void check_pair(Ctx &c, uint64_t a, uint64_t b, bool mul_only)
{
    c.pairs++;
    const uint64_t ca = a % PP, cb = b % PP;
    const gl64_t A = raw_el(a), B = raw_el(b);
    const uint64_t h = vf::mix64(a ^ 0xC20, b);
    gl64_t r;
    if (!mul_only)
    {
        // ---- public constructor feeds the same value (canonical operands: stored value unchanged)
        if (a < PP)
        {
            gl64_t A2(a);
            verify_u64(c, OP_CTOR, a, 0, A2.get_val(), a, "changes-canonical-value");
        }
        // ---- addition
        {
            u128 s = (u128)a + b;
            if (!strcmp(c.inrep, "canon")) c.cls(s < PP ? "add:sum_lt_p" : (s >> 64) ? "add:sum_ge_2^64" : "add:sum_ge_p");
            else c.cls((s >> 64) ? "add@pr:sum_ge_2^64" : "add@pr:sum_lt_2^64");
            const uint64_t want = orc::add(ca, cb);
            RUN(c, r = A + B);
            verify(c, OP_ADD, a, b, r, want);
            r = A;
            RUN(c, r += B);
            verify(c, OP_ADDEQ, a, b, r, want);
            r = A;
            RUN(c, r += r);
            verify(c, OP_ADDSELF, a, a, r, orc::add(ca, ca));
        }
        // ---- subtraction
        {
            if (!strcmp(c.inrep, "canon")) c.cls(a >= b ? "sub:no_borrow" : "sub:borrow");
            else c.cls(a < 0xFFFFFFFFULL ? "sub@pr:minuend_lifted_by_p" : "sub@pr:minuend_kept");
            const uint64_t want = orc::sub(ca, cb);
            RUN(c, r = A - B);
            verify(c, OP_SUB, a, b, r, want);
            r = A;
            RUN(c, r -= B);
            verify(c, OP_SUBEQ, a, b, r, want);
            r = A;
            RUN(c, r -= r);
            verify(c, OP_SUBSELF, a, a, r, 0);
        }
        // ---- negation
        {
            c.cls(ca == 0 ? (a == 0 ? "neg:zero" : "neg:zero_alias_p") : "neg:nonzero");
            RUN(c, r = -A);
            verify(c, OP_NEG, a, 0, r, orc::neg(ca));
            RUN(c, r = cneg(A, false));
            verify(c, OP_CNEG0, a, 0, r, ca);
        }
    }
    // ---- multiplication by an element, squaring
    {
        u128 pr = (u128)a * b;
        uint64_t lo = (uint64_t)pr, hi = (uint64_t)(pr >> 64);
        uint64_t hs = (hi & 0xFFFFFFFFULL) + (hi >> 32);
        if (hi == 0) c.cls("mul:hi_zero");
        c.cls(lo < hi ? "mul:lo_lt_hi" : "mul:lo_ge_hi");
        c.cls(lo < hs ? "mul:lo_lt_hisum" : "mul:lo_ge_hisum");
        if (hs >> 32) c.cls("mul:hisum_carry");
        if ((hi >> 32) == 0xFFFFFFFFULL) c.cls("mul:hi_hi_ffffffff");
        if ((hi & 0xFFFFFFFFULL) == 0xFFFFFFFFULL) c.cls("mul:hi_lo_ffffffff");
        const uint64_t want = orc::mul(ca, cb);
        RUN(c, r = A * B);
        verify(c, OP_MUL, a, b, r, want);
        if (c.tr.ng >= 1) c.cls(c.tr.gbits & 1 ? "mul:final_subtraction_taken" : "mul:final_subtraction_skipped");
        else if (r.get_val() >= PP) c.cls("mul:partially_reduced_result_ge_p");
        else c.cls("mul:partially_reduced_result_lt_p");
        r = A;
        RUN(c, r *= B);
        verify(c, OP_MULEQ, a, b, r, want);
        const uint64_t wsq = orc::mul(ca, ca);
        r = A;
        RUN(c, r *= r);
        verify(c, OP_MULSELF, a, a, r, wsq);
        RUN(c, r = sqr(A));
        verify(c, OP_SQR, a, a, r, wsq);
        r = A;
        RUN(c, r.sqr());
        verify(c, OP_SQR, a, a, r, wsq);
    }
    // ---- multiplication by a 32-bit word
    {
        static const uint32_t W8[8] = {0u, 1u, 2u, 0x7FFFFFFFu, 0x80000000u, 0xFFFFFFFEu, 0xFFFFFFFFu, 7u};
        const uint32_t ws[3] = {(uint32_t)b, (uint32_t)(b >> 32), W8[h & 7]};
        for (int k = 0; k < 3; k++)
        {
            const uint32_t w = ws[k];
            u128 pr = (u128)a * w;
            c.cls((pr >> 64) ? "mulw:product_ge_2^64" : "mulw:product_lt_2^64");
            const uint64_t want = orc::mul(ca, w);
            RUN(c, r = A * w);
            verify(c, OP_MULW, a, w, r, want);
            if (c.tr.ng >= 1) c.cls(c.tr.gbits & 1 ? "mulw:final_subtraction_taken" : "mulw:final_subtraction_skipped");
            r = A;
            RUN(c, r *= w);
            verify(c, OP_MULWEQ, a, w, r, want);
        }
    }
    // ---- powers (the header squares without intermediate reduction: partially reduced multiplicands in both variants)
    if ((h >> 8) % 24 == 0)
    {
        static const uint32_t E[] = {0, 1, 2, 3, 4, 5, 7, 8, 15, 16, 31, 32, 33, 0xFFFF, 0x10000, 0x7FFFFFFF, 0x80000000u, 0xFFFFFFFEu, 0xFFFFFFFFu};
        uint32_t e = ((h >> 16) & 1) ? E[(h >> 20) % (sizeof(E) / sizeof(E[0]))] : (uint32_t)(h >> 32) >> ((h >> 24) & 31);
        RUN(c, r = A ^ e);
        verify(c, OP_POWU, a, e, r, orc::pw(ca, e), false);
        gl64_t t = A;
        RUN(c, r = t(e));
        verify(c, OP_POWU, a, e, r, orc::pw(ca, e), false);
        int ei = (int)(e & 0x7FFFFFFF);
        if (ei < 2) ei = 2 + (int)((h >> 40) & 7);
        RUN(c, r = A ^ ei);
        verify(c, OP_POWI, a, (uint64_t)ei, r, orc::pw(ca, (uint64_t)ei), false);
        c.cls("pow:cases");
    }
    if (mul_only) return;
    // ---- shifts: multiplication / division by 2^k
    if ((h >> 12) % 24 == 1)
    {
        static const unsigned K[] = {0, 1, 2, 3, 31, 32, 33, 63, 64, 65, 95, 96, 97, 127, 191, 192};
        unsigned k = K[(h >> 20) % (sizeof(K) / sizeof(K[0]))];
        const uint64_t p2 = orc::pw(2, k);
        RUN(c, r = A << k);
        verify(c, OP_SHL, a, k, r, orc::mul(ca, p2), false);
        RUN(c, r = A >> k);
        verify(c, OP_SHR, a, k, r, orc::mul(ca, orc::inv(p2)), false);
        r = A;
        RUN(c, { r <<= 1; r >>= 1; });
        verify(c, OP_SHLSHR, a, 1, r, ca, false);
        c.cls("shift:cases");
    }
    // ---- selection helpers
    if ((h >> 4) % 8 == 2)
    {
        RUN(c, r = gl64_t::csel(A, B, 1));
        verify(c, OP_CSEL, a, b, r, ca);
        RUN(c, r = gl64_t::csel(A, B, 0));
        verify(c, OP_CSEL, a, b, r, cb);
        RUN(c, r = gl64_t::csel(A, B, (int)0x80000000));
        verify(c, OP_CSEL, a, b, r, ca);
        RUN(c, r = czero(A, 1));
        verify(c, OP_CZERO, a, 1, r, 0);
        RUN(c, r = czero(A, 0));
        verify(c, OP_CZERO, a, 0, r, ca);
    }
    // ---- dot products (not named by the property; they are the only users of madc.lo.cc and of a carry that crosses asm statements)
    if ((h >> 24) % 48 == 5)
    {
        const uint64_t xs[4] = {a, b, PRB ? (a ^ b) : (a ^ b) % PP, PRB ? ~a : (~a) % PP}, ys[4] = {b, a, PRB ? a + b : (a + b) % PP, PRB ? 0 - b : (0 - b) % PP};
        gl64_t X[4], Y[4];
        uint8_t Z[4] = {(uint8_t)h, (uint8_t)(h >> 8), 255, (uint8_t)(h >> 16)};
        uint64_t w1 = 0, w2 = 0;
        for (int i = 0; i < 4; i++)
        {
            X[i].set_val(xs[i]); Y[i].set_val(ys[i]);
            w1 = orc::add(w1, orc::mul(xs[i] % PP, ys[i] % PP));
            w2 = orc::add(w2, orc::mul(xs[i] % PP, Z[i]));
        }
        RUN(c, r = gl64_t::dot_product<4>(X, Y));
        verify(c, OP_DOT, a, b, r, w1, false);
        RUN(c, r = gl64_t::dot_product<4>(X, Z));
        verify(c, OP_DOT8, a, b, r, w2, false);
        c.cls("dot_product:cases");
    }
    // ---- reciprocal / division / seventh root (addition chains over mul)
    if ((h >> 16) % 96 == 3)
    {
        const uint64_t ia = ca ? orc::inv(ca) : 0; // x^(p-2): 0 -> 0
        RUN(c, r = A.reciprocal());
        verify(c, OP_RECIP, a, 0, r, ia, false);
        RUN(c, r = 1 / A);
        verify(c, OP_RECIP, a, 0, r, ia, false);
        RUN(c, r = B / A);
        verify(c, OP_DIV, b, a, r, orc::mul(cb, ia), false);
        r = B;
        RUN(c, r /= A);
        verify(c, OP_DIV, b, a, r, orc::mul(cb, ia), false);
        // heptaroot: x -> x^(1/7), checked by raising the oracle's copy of the result to the 7th power
        RUN(c, r = A.heptaroot());
        c.rep.evaluations++;
        c.opcount[OP_HEPTA]++;
        const uint64_t hv = r.get_val();
        if (orc::pw(hv % PP, 7) != ca || (!PRB && hv >= PP))
            c.rep.violation(c.pre + "heptaroot:wrong-value", J().str("arch", ARCHN).str("variant", VARN).str("op", "heptaroot").h("a", a).h("got_stored", hv).h("got^7", orc::pw(hv % PP, 7)).h("expected^7", ca).done());
        c.cls("reciprocal:cases");
    }
}

static inline void run_pair(Ctx &c, const char *family, uint64_t a, uint64_t b, int mode)
{
    // mode 0: canonical operands; 1: any 64-bit operands, all operations (pr build); 2: any 64-bit multiplicands, mul family only (full build)
    c.family = family;
    if (mode == 0)
    {
        a = orc::canon(a);
        b = orc::canon(b);
        c.inrep = "canon";
        check_pair(c, a, b, false);
    }
    else
    {
        c.inrep = "pr";
        if (a >= PP || b >= PP) c.cls("in:partially_reduced_operand");
        check_pair(c, a, b, mode == 2);
    }
    static std::map<std::string, int> seen;
    static const char *last = nullptr;
    static int lastmode = -1, lastn = 0;
    if (family != last || mode != lastmode) { last = family; lastmode = mode; lastn = seen[std::string(family) + ":" + c.inrep]; }
    if (lastn < 2) { lastn = ++seen[std::string(family) + ":" + c.inrep]; c.rep.sample(std::string(family) + ":" + c.inrep, J().h("a", a).h("b", b).done()); }
}

// ------------------------------------------------------------------------------------------ device tables
static void check_tables(Ctx &c)
{
    Report &rep = c.rep;
    if (!orc::roots_selfcheck())
    {
        rep.note("harness_failure", J().str("what", "oracle root table failed its own consistency check").done());
        rep.finish();
        _exit(2);
    }
    for (unsigned i = 0; i < 33; i++)
    {
        const uint64_t w = gpu_tables::omegas[i], wi = gpu_tables::omegas_inv[i], di = gpu_tables::domain_size_inverse[i];
        const uint64_t cpu = Goldilocks::w(i).fe;
        Goldilocks::Element cpu2;
        Goldilocks::w(cpu2, i);
        const std::string idx = "[" + std::to_string(i) + "]";
        auto bad = [&](const std::string &table, const char *what, uint64_t got, uint64_t want) {
            rep.violation("C20:tables:" + table + idx + ":" + what, J().str("table", table).u("index", i).h("entry", got).h("expected", want).str("what", what).done());
        };
        rep.evaluations += 6;
        if (w % PP != cpu % PP || cpu2.fe != cpu) bad("omegas", "differs-from-cpu-table", w, cpu);
        if (w % PP != orc::ROOTS[i]) bad("omegas", "differs-from-published-root", w, orc::ROOTS[i]);
        if (orc::mul(w, wi) != 1) bad("omegas_inv", "not-the-inverse-of-omegas", wi, orc::inv(w));
        if (orc::mul(wi, orc::ROOTS[i]) != 1) bad("omegas_inv", "not-the-inverse-of-the-root", wi, orc::inv(orc::ROOTS[i]));
        const uint64_t two_i = (uint64_t)(((u128)1 << i) % PP);
        if (orc::mul(di, two_i) != 1) bad("domain_size_inverse", "not-the-inverse-of-2^i", di, orc::inv(two_i));
        // order: omegas[i]^(2^i) = 1 and, for i > 0, omegas[i]^(2^(i-1)) = -1 (primitive)
        if (orc::pw(w, (uint64_t)1 << i) != 1 || (i > 0 && orc::pw(w, (uint64_t)1 << (i - 1)) != PP - 1)) bad("omegas", "wrong-order", w, orc::ROOTS[i]);
        if (w >= PP || wi >= PP || di >= PP) rep.cls("tables:noncanonical_entries");
        // the way the kernels consume the rows: through the gl64_t constructor and device multiplication
        gl64_t gw(w), gwi(wi), gdi(di), g2(two_i);
        gl64_t one1 = gw * gwi, one2 = gdi * g2;
        rep.evaluations += 3;
        // (keyed as arithmetic of this build, not as a table defect: the rows themselves are judged by the oracle above)
        auto badp = [&](const char *what, uint64_t x, uint64_t y, const gl64_t &got, uint64_t want) {
            rep.violation(c.pre + "table-row-product:" + what, J().str("arch", ARCHN).str("variant", VARN).str("what", what).u("index", i).h("a", x).h("b", y)
                                                                   .h("got_stored", got.get_val()).h("got_converted", (uint64_t)got).h("expected", want).done());
        };
        if ((uint64_t)one1 != orc::mul(w, wi)) badp("omegas*omegas_inv", w, wi, one1, orc::mul(w, wi));
        if ((uint64_t)one2 != orc::mul(di, two_i)) badp("domain_size_inverse*2^i", di, two_i, one2, orc::mul(di, two_i));
        if ((uint64_t)gw != w % PP) badp("constructor(omegas)", w, 0, gw, w % PP);
        rep.cls("tables:rows_checked");
    }
    rep.cls("tables:omegas_vs_cpu_table", 33);
    rep.cls("tables:omegas_inv_products", 33);
    rep.cls("tables:domain_size_inverse_products", 33);
    rep.sample("tables", J().h("omegas[32]", gpu_tables::omegas[32]).h("omegas_inv[32]", gpu_tables::omegas_inv[32]).h("domain_size_inverse[32]", gpu_tables::domain_size_inverse[32]).done());
}

// ------------------------------------------------------------------------------------------ workload
static void run(const vf::Args &args, Report &rep)
{
    Ctx c(rep);
    Rng rng(vf::mix64(args.seed, 0xC20 + args.shard * 7919 + (PRB ? 1 : 0) * 104729 + __CUDA_ARCH__));
    gen::G64 g;
    const std::vector<uint64_t> &F = g.fixed; // B0 + limb lattice
    uint64_t idx = 0;
    auto mine = [&](uint64_t i) { return (int)(i % args.nshards) == args.shard; };
    // operand representations to run: canonical always; any-64-bit for everything in the pr build, for the
    // multiplication family in the full build
    const int modes[2] = {0, PRB ? 1 : 2};
    const uint64_t scale = args.getu("directed-scale", 100); // percent of the directed solve-for volume (ASan slice uses less)

    if (args.shard == 0) check_tables(c);

    // ---- single values: constructor / final reduction / conversion on the whole fixed set, p-neighbourhood, random
    {
        for (size_t i = 0; i < F.size(); i++, idx++)
            if (mine(idx)) { check_value(c, F[i]); c.cls("family:value_fixed"); }
        for (int d = -70; d <= 70; d++, idx++)
            if (mine(idx)) { check_value(c, PP + (uint64_t)(int64_t)d); check_value(c, (uint64_t)(int64_t)d); check_value(c, 0xFFFFFFFFULL + (uint64_t)(int64_t)d); c.cls("family:value_boundary", 3); }
        Rng r2(0x7A1);
        for (int t = 0; t < 20000; t++, idx++)
        {
            uint64_t x = g.pick(r2);
            if (mine(idx)) { check_value(c, x); c.cls("family:value_directed_mix"); }
        }
    }
    for (int mi = 0; mi < 2; mi++)
    {
        const int mode = modes[mi];
        // ---- fixed x fixed, exhaustively
        for (size_t i = 0; i < F.size(); i++)
            for (size_t j = 0; j < F.size(); j++, idx++)
                if (mine(idx)) { run_pair(c, "fixed_x_fixed", F[i], F[j], mode); c.cls("family:fixed_x_fixed"); }
        // ---- solve-for addition: b = S - a
        {
            const u128 S[] = {(u128)PP - 1, (u128)PP, (u128)PP + 1, ((u128)1 << 64) - 1, (u128)1 << 64, ((u128)1 << 64) + 1, (u128)2 * PP - 3, (u128)2 * PP - 2,
                              (u128)2 * PP - 1, (u128)2 * PP, ((u128)1 << 64) + PP - 1, ((u128)1 << 64) + PP, ((u128)1 << 64) + PP + 1, ((u128)1 << 65) - 2, ((u128)1 << 64) + 0xFFFFFFFFULL};
            Rng r2(0xADD);
            const int per = (int)(1500 * scale / 100);
            for (unsigned si = 0; si < sizeof(S) / sizeof(S[0]); si++)
                for (int t = 0; t < per; t++, idx++)
                {
                    uint64_t a = t < (int)F.size() ? F[t] : g.pick(r2);
                    if (mode == 0) a = orc::canon(a);
                    if (!mine(idx)) continue;
                    if (S[si] < a) continue;
                    u128 d = S[si] - a;
                    if (d >> 64) continue;
                    if (mode == 0 && (uint64_t)d >= PP) continue;
                    run_pair(c, "solve_add", a, (uint64_t)d, mode);
                    c.cls("family:solve_add");
                }
        }
        // ---- solve-for subtraction: b = a - d for small |d| and around the 2^32-1 lifting threshold of the pr variant
        {
            Rng r2(0x5B);
            const int n = (int)(20000 * scale / 100);
            for (int t = 0; t < n; t++, idx++)
            {
                uint64_t a = r2.below(3) == 0 ? 0xFFFFFFFFULL - 3 + r2.below(7) : r2.below(3) == 0 ? r2.below(0x100000000ULL) : g.pick(r2);
                uint64_t d = r2.below(5) - 2 + (r2.below(4) == 0 ? PP : 0);
                uint64_t b = a - d;
                if (r2.below(8) == 0) b = r2.coin() ? ~0ULL - r2.below(3) : PP - 2 + r2.below(5);
                if (!mine(idx)) continue;
                run_pair(c, "solve_sub", a, b, mode);
                c.cls("family:solve_sub");
            }
        }
        // ---- solve-for multiplication
        {
            Rng r2(0x301);
            const int n1 = (int)(8000 * scale / 100), n3 = (int)(40000 * scale / 100), n4 = (int)(24000 * scale / 100);
            // (i) shifted small factors: products with zero low limbs
            for (int t = 0; t < n1; t++, idx++)
            {
                uint64_t u = r2.below(65536), v = r2.below(65536);
                unsigned sa = 32 + (unsigned)r2.below(17), sb = 32 + (unsigned)r2.below(17);
                if (!mine(idx)) continue;
                run_pair(c, "solve_mul_shifted", u << sa, v << sb, mode);
                c.cls("family:solve_mul_shifted");
            }
            // (ii) both factors just below 2^64 (pr) / just below p (canonical)
            for (int t = 0; t < n1; t++, idx++)
            {
                uint64_t u = 1 + r2.below(r2.coin() ? 16 : 0x200000000ULL), v = 1 + r2.below(r2.coin() ? 16 : 0x200000000ULL);
                if (!mine(idx)) continue;
                if (mode == 0) run_pair(c, "solve_mul_top", PP - u, PP - v, mode);
                else run_pair(c, "solve_mul_top", 0 - u, 0 - v, mode);
                c.cls("family:solve_mul_top");
            }
            // (iii) 128-bit product patterns: b = floor(T/a), floor(T/a)+1
            for (int t = 0; t < n3; t++, idx++)
            {
                uint64_t hi_hi, hi_lo, lo;
                switch (r2.below(8))
                {
                case 0: hi_hi = r2.next() & 0xFFFFFFFF; hi_lo = 0xFFFFFFFF; lo = ~r2.below(1ULL << 33); break;
                case 1: hi_hi = 0xFFFFFFFF - r2.below(3); hi_lo = r2.next() & 0xFFFFFFFF; lo = r2.below(1ULL << 34); break;
                case 2: hi_hi = r2.next() & 0xFFFFFFFF; hi_lo = r2.below(3); lo = r2.below(1ULL << 33); break;
                case 3: hi_hi = r2.next() & 0xFFFFFFFF; hi_lo = r2.next() & 0xFFFFFFFF; lo = (hi_hi - hi_lo * 0xFFFFFFFFULL) + r2.below(5) - 2; break; // result near 0
                case 4: hi_hi = 0; hi_lo = 0xFFFFFFFF - r2.below(2); lo = ~r2.below(1ULL << 32); break;
                case 5: hi_hi = 0xFFFFFFFF - r2.below(1ULL << 16); hi_lo = 0xFFFFFFFF - r2.below(1ULL << 16); lo = r2.next(); break;   // hi_lo + hi_hi carries
                case 6: hi_hi = r2.next() & 0xFFFFFFFF; hi_lo = r2.next() & 0xFFFFFFFF; lo = ((hi_hi << 32) | hi_lo) + r2.below(5) - 2; break; // lo ~ hi
                default: hi_hi = r2.next() & 0xFFFFFFFF; hi_lo = 0xFFFFFFFF; lo = r2.next(); break;
                }
                u128 T = ((u128)((hi_hi << 32) | hi_lo) << 64) | lo;
                uint64_t a = g.pick(r2) | (1ULL << (32 + r2.below(32)));
                if (mode == 0) a = orc::canon(a);
                if (a == 0) continue;
                u128 q = T / a;
                if (q >> 64) { a |= 1ULL << 63; if (mode == 0) a = orc::canon(a); if (a == 0) continue; q = T / a; }
                if (q >> 64) continue;
                if (!mine(idx)) continue;
                run_pair(c, "solve_mul_target", a, (uint64_t)q, mode);
                run_pair(c, "solve_mul_target", a, (uint64_t)q + 1, mode);
                c.cls("family:solve_mul_target", 2);
            }
            // (iv) chosen residue: b = r * a^-1 for residues r next to 0, 2^32-1 (the only residues that have a second
            //      64-bit representative r+p, i.e. where the final conditional subtraction can be needed) and next to p
            for (int t = 0; t < n4; t++, idx++)
            {
                uint64_t a = t < (int)F.size() ? orc::canon(F[t]) : orc::canon(g.pick(r2));
                uint64_t r;
                switch (r2.below(5))
                {
                case 0: r = r2.below(8); break;
                case 1: r = 0xFFFFFFFFULL - 4 + r2.below(8); break;
                case 2: r = r2.below(0xFFFFFFFFULL); break;
                case 3: r = PP - 1 - r2.below(8); break;
                default: r = r2.below(1ULL << 33); break;
                }
                if (a == 0) continue;
                uint64_t b = orc::mul(r, orc::inv(a));
                if (!mine(idx)) continue;
                uint64_t aa = a, bb = b;
                if (mode != 0 && r2.coin()) { if (aa < 0xFFFFFFFFULL) aa += PP; else if (bb < 0xFFFFFFFFULL) bb += PP; }
                run_pair(c, "solve_mul_residue", aa, bb, mode);
                c.cls("family:solve_mul_residue");
            }
            // (v) word multiplier: a = r * w^-1 for small residues r and boundary words (b carries the word in both halves)
            for (int t = 0; t < n1; t++, idx++)
            {
                static const uint32_t WB[] = {1u, 2u, 3u, 0x7FFFFFFFu, 0x80000000u, 0x80000001u, 0xFFFFFFFEu, 0xFFFFFFFFu, 0xFFFFu, 0x10000u};
                uint32_t w = r2.coin() ? WB[r2.below(10)] : (uint32_t)r2.next() | 1u;
                uint64_t r = r2.coin() ? r2.below(0xFFFFFFFFULL) : r2.below(16);
                uint64_t a = orc::mul(r, orc::inv(w));
                if (!mine(idx)) continue;
                run_pair(c, "solve_mulw_residue", a, ((uint64_t)w << 32) | w, mode);
                c.cls("family:solve_mulw_residue");
            }
        }
        // ---- random filler (seed dependent): mixed generator (a)-(e)
        {
            uint64_t n = args.getu("pairs", args.thorough() ? 2400000 : 24000) / args.nshards;
            for (uint64_t t = 0; t < n; t++)
            {
                uint64_t a = g.pick(rng), b = g.pick(rng);
                run_pair(c, "mixed_random", a, b, mode);
                if ((t & 7) == 0) check_value(c, g.pick(rng));
            }
            c.cls("family:mixed_random", n);
        }
    }
    c.cls("run:pairs", c.pairs);
    c.flush();
    const ptx::Totals &T = ptx::totals();
    rep.cls(c.cpre + "interp:asm_statements_executed", T.statements);
    rep.cls(c.cpre + "interp:ptx_instructions_executed", T.instructions);
    rep.cls(c.cpre + "interp:cc_carry_set", T.cc_set);
    rep.cls(c.cpre + "interp:cc_carry_clear", T.cc_clear);
    rep.cls(c.cpre + "interp:guarded_instruction_executed", T.guard_taken);
    rep.cls(c.cpre + "interp:guarded_instruction_skipped", T.guard_skipped);
    rep.cls(c.cpre + "interp:distinct_templates_executed", T.programs_parsed);
    if (ptx::open_scopes() != 0)
    {
        rep.note("harness_failure", J().str("what", "PTX register scopes left open at the end of the run").u("open", ptx::open_scopes()).done());
        rep.finish();
        _exit(2);
    }
    rep.cls(c.cpre + "run:shards_completed:" + args.get("runtag", "prod"));
}

int main(int argc, char **argv)
{
    vf::Args args = vf::parse_args(argc, argv);
    Report rep;
    rep.open(args.prop.empty() ? "C20" : args.prop, args.out);
    rep.nt_cap = 8192; // distinct-hash sample per process (many processes: keeps the result lines small)
    g_rep = &rep;
    ptx::fatal_hook() = on_fatal;
    // 1. the interpreter must pass its own hand-computed cases, 2. every template of the header must be inside the subset
    int bad = ptx::selftest(stderr);
    if (bad)
    {
        rep.note("harness_failure", J().str("what", "ptx interpreter self-test failed").u("failed_expectations", (uint64_t)bad).done());
        rep.finish();
        return 2;
    }
    rep.cls("interp:selftest_passed");
    for (unsigned i = 0; i < ptx_gen::n_templates; i++) ptx::validate(ptx_gen::all_templates[i]);
    rep.cls("interp:templates_validated", ptx_gen::n_templates);
    if (args.mode == "selftest")
    {
        rep.finish();
        return 0;
    }
    try
    {
        run(args, rep);
    }
    catch (const ptx::Trap &t)
    {
        rep.note("harness_failure", J().str("what", "unexpected PTX trap").str("statement", t.stmt ? t.stmt : "").done());
        rep.finish();
        return 2;
    }
    rep.finish();
    return 0;
}
