// C17: strided / offset / broadcast base-field wrappers (copy/add/sub/mul _batch, _avx, _avx512) and parcpy / parSetZero.
//
// Part "wrappers": generic driver over the overload table registered by the generated thunk units (tools/gen_overloads.py).
//   Per trial: operands are placed in sentinel arenas (arena.hpp) at positions given by a uniform stride or an index list,
//   values come from gen::G64, the thunk calls exactly one overload, and the monitor checks
//     wrong-value : lane k of the result != op(a_k, b_k)  (field ops compared canonicalised, copies bit-identical)
//     stray-write : an undesignated arena cell / an input cell / an index list changed
//     stray-read  : the same call with another sentinel in all undesignated cells (and other previous contents of the
//                   result) delivers different result bits
//   Crashes and sanitizer reports are attributed to an overload by run_forked.
//   The expected behaviour is the family convention recorded in tools/overloads_c17.json, never a definition's text.
// Part "par": Goldilocks::parcpy / parSetZero over the size x thread-argument grid with exact-size guard buffers and
//   sentinel-framed buffers.
//
// Never use the identifiers P, P_n, P_s, MSB, sqmask, P8, P8_n, sqmask8 here (globals of the library headers).
#include "wrappers17.hpp"
#include "harness.hpp"
#include "oracle.hpp"
#include "gen.hpp"
#include "arena.hpp"
#include <climits>
#include <algorithm>
#include <memory>

using c17::Shape;
typedef Goldilocks::Element El;

static const uint64_t STRIDES[9] = {0, 1, 2, 3, 4, 7, 13, 64, 1000};
static const size_t CLS[4] = {64, 256, 1536, 8448};
enum IdxKind { IK_RANDOM = 0, IK_PERMUTED, IK_REPEATS, IK_IDENTITY, IK_REVERSED, IK_ALIASED, IK_N };
static const char *IK_NAME[IK_N] = {"random", "permuted", "repeats", "identity", "reversed_stride", "aliased_to_result"};

static inline bool is_mem(Shape s) { return s == c17::MEM || s == c17::STRIDE || s == c17::INDEX; }
static const char *shape_name(Shape s)
{
    switch (s)
    {
    case c17::MEM: return "contiguous";
    case c17::STRIDE: return "stride";
    case c17::INDEX: return "index";
    case c17::BCAST: return "broadcast";
    case c17::REG: return "register";
    default: return "none";
    }
}

struct Operand
{
    Shape sh = c17::NONE;
    uint64_t pos[8];      // cell of lane k relative to the base pointer
    uint64_t stride = 1;
    int sidx = -1;        // index into STRIDES
    int ikind = -1;
    uint64_t lead = 0;    // base pointer = arena cell `lead`
    uint64_t maxpos = 0, tail = 8;
    arena::Sentinel *ar = nullptr;
    uint64_t val[8];      // lane values of an input (raw representation)
    uint64_t bval = 0;    // broadcast value
};

struct Stats
{
    uint64_t trials = 0, calls = 0, alias = 0, noncanon_in = 0, noncanon_out = 0, regalias = 0, third_calls = 0, exact_calls = 0, huge_calls = 0, huge_unavailable = 0, bcast_alias = 0, same_base = 0;
    uint64_t stride_in[9] = {0}, stride_out[9] = {0}, idx_in[IK_N] = {0}, idx_out[IK_N] = {0};
    uint64_t shape_in[6] = {0}, shape_out[6] = {0};
};

struct Ctx
{
    gen::G64 g;
    std::unique_ptr<arena::Sentinel> pool[3][4];
    std::string keysuffix; // "concurrent-callers:" for the contexts of the concurrent phase
#if !defined(__SANITIZE_ADDRESS__)
    arena::GuardBuf<uint64_t> exact_a{CLS[3], true, 8}, exact_b{CLS[3], true, 8}; // inputs placed so that they END at an unmapped page
#endif
    Ctx()
    {
        for (int r = 0; r < 3; r++)
            for (int c = 0; c < 4; c++) pool[r][c].reset(new arena::Sentinel(CLS[c], 0));
    }
};

static void place_forced(Operand &o, int L, uint64_t s)
{
    o.stride = s;
    for (int k = 0; k < L; k++) o.pos[k] = (uint64_t)k * s;
    o.sidx = -1;
    for (int i = 0; i < 9; i++) if (STRIDES[i] == s) o.sidx = i;
    o.ikind = IK_ALIASED;
}

static void place(Operand &o, int L, bool is_out, vf::Rng &r)
{
    switch (o.sh)
    {
    case c17::MEM:
        for (int k = 0; k < L; k++) o.pos[k] = k;
        o.stride = 1;
        break;
    case c17::STRIDE:
        o.sidx = is_out ? 1 + (int)r.below(8) : (int)r.below(9);
        o.stride = STRIDES[o.sidx];
        for (int k = 0; k < L; k++) o.pos[k] = (uint64_t)k * o.stride;
        break;
    case c17::INDEX:
    {
        int kind;
        if (is_out)
        {
            static const int ks[4] = {IK_RANDOM, IK_PERMUTED, IK_IDENTITY, IK_REVERSED};
            kind = ks[r.below(8) < 5 ? (r.coin() ? 0 : 1) : 2 + r.below(2)];
        }
        else
        {
            uint64_t t = r.below(10);
            kind = t < 4 ? IK_RANDOM : t < 6 ? IK_PERMUTED : t < 8 ? IK_REPEATS : t < 9 ? IK_IDENTITY : IK_REVERSED;
        }
        o.ikind = kind;
        switch (kind)
        {
        case IK_RANDOM:
        {
            const uint64_t ranges[6] = {(uint64_t)L, (uint64_t)2 * L, 16, 64, 1000, 7001};
            uint64_t R = ranges[r.below(6)];
            for (int k = 0; k < L; k++)
            {
                for (;;)
                {
                    uint64_t v = r.below(R);
                    bool dup = false;
                    if (is_out)
                        for (int j = 0; j < k; j++) if (o.pos[j] == v) dup = true;
                    if (!dup) { o.pos[k] = v; break; }
                }
            }
            break;
        }
        case IK_PERMUTED:
        {
            uint64_t s = 1 + r.below(3), off = r.below(8);
            int perm[8];
            for (int k = 0; k < L; k++) perm[k] = k;
            for (int k = L - 1; k > 0; k--) std::swap(perm[k], perm[r.below(k + 1)]);
            for (int k = 0; k < L; k++) o.pos[k] = off + s * perm[k];
            break;
        }
        case IK_REPEATS:
        {
            int m = 1 + (int)r.below(L - 1); // fewer distinct cells than lanes: at least one repeat
            uint64_t base[8];
            uint64_t R = r.coin() ? 16 : 1000;
            for (int j = 0; j < m; j++) base[j] = r.below(R);
            for (int k = 0; k < L; k++) o.pos[k] = base[r.below(m)];
            break;
        }
        case IK_IDENTITY:
            for (int k = 0; k < L; k++) o.pos[k] = k;
            break;
        default:
        {
            uint64_t s = 1 + r.below(13);
            for (int k = 0; k < L; k++) o.pos[k] = (uint64_t)(L - 1 - k) * s;
            break;
        }
        }
        break;
    }
    default: break;
    }
}

static void finish_placement(Operand &o, int L, vf::Rng &r)
{
    o.maxpos = 0;
    for (int k = 0; k < L; k++) o.maxpos = std::max(o.maxpos, o.pos[k]);
    uint64_t s = (o.sh == c17::STRIDE || o.ikind == IK_ALIASED) ? o.stride : 0;
    o.lead = r.below(9) + (s <= 64 ? s : 0); // room for a (k-1)*stride slip to land inside the arena
    o.tail = 8 + std::min<uint64_t>(s, 1000); // room for a (k+1)*stride slip
}
static int arena_class(const Operand &o)
{
    uint64_t need = o.lead + o.maxpos + 1 + o.tail;
    for (int c = 0; c < 4; c++) if (need <= CLS[c]) return c;
    abort();
}

static std::string describe_operand(const char *name, const Operand &o, int L)
{
    vf::J j;
    j.str("shape", shape_name(o.sh));
    if (o.sh == c17::STRIDE) j.u("stride", o.stride);
    if (o.sh == c17::INDEX) { j.raw("index", vf::jarr_hex(o.pos, L)); if (o.ikind >= 0) j.str("index_kind", IK_NAME[o.ikind]); }
    if (o.sh == c17::BCAST) j.h("value", o.bval);
    else if (o.sh != c17::NONE && name[0] != 'c') j.raw("lane_values", vf::jarr_hex(o.val, L));
    return j.done();
}

struct Trial
{
    const c17::Ov *ov;
    int L;
    Operand c, a, b;
    int alias = 0; // 0 none, 1 result aliases a, 2 result aliases b
    uint64_t exp[8];
    bool is_copy;
    char opc;
};

static std::string describe_trial(const Trial &t, uint64_t tseed)
{
    vf::J j;
    j.str("overload", std::string(t.ov->family) + ":" + t.ov->id).str("signature", t.ov->sig).h("trial_seed", tseed);
    j.str("alias", t.alias == 0 ? "none" : t.alias == 1 ? "result==a" : "result==b");
    j.raw("c", describe_operand("c", t.c, t.L)).raw("a", describe_operand("a", t.a, t.L));
    if (t.b.sh != c17::NONE) j.raw("b", describe_operand("b", t.b, t.L));
    j.raw("expected", vf::jarr_hex(t.exp, t.L));
    return j.done();
}

static void fill_call_operand(const Operand &o, El *&ptr, uint64_t &s, uint64_t *ix, El &bv, uint64_t *reg, int L, uint64_t junk)
{
    if (is_mem(o.sh))
    {
        ptr = reinterpret_cast<El *>(&o.ar->cells[o.lead]);
        s = o.stride;
        for (int k = 0; k < 8; k++) ix[k] = k < L ? o.pos[k] : (junk + 3 * k) % (o.maxpos + o.tail); // entries beyond the lanes must not matter
    }
    else
    {
        for (int k = 0; k < 8; k++) ix[k] = 0;
    }
    bv.fe = o.bval;
    for (int k = 0; k < 8; k++) reg[k] = (o.sh == c17::REG && k < L) ? o.val[k] : junk ^ (0x0101010101010101ULL * k);
}

// one trial = two calls of the overload (different sentinels / previous result contents)
static void run_trial(Ctx &cx, const c17::Ov &ov, uint64_t tseed, vf::Report &rep, Stats &st)
{
    vf::Rng r(tseed);
    Trial t;
    t.ov = &ov;
    t.L = ov.lanes;
    const int L = t.L;
    t.is_copy = ov.op[0] == 'c';
    t.opc = ov.op[0];
    t.c.sh = ov.c; t.a.sh = ov.a; t.b.sh = ov.b;
    const std::string keystem = std::string("C17:") + ov.family + ":" + ov.id + ":" + cx.keysuffix;

    // ---- aliasing mode: result positions == positions of one memory input (legal for the library: every definition
    //      reads all inputs of a lane / of the call before it stores)
    if (!t.is_copy && is_mem(ov.c) && (is_mem(ov.a) || is_mem(ov.b)) && r.below(8) == 0)
    {
        if (is_mem(ov.a) && is_mem(ov.b)) t.alias = 1 + (int)r.below(2);
        else t.alias = is_mem(ov.a) ? 1 : 2;
    }
    bool same_base = false;
    Operand &ax = t.alias == 2 ? t.b : t.a;  // aliased input (if any)
    if (t.alias)
    {
        if (t.c.sh == c17::MEM || ax.sh == c17::MEM) { place_forced(t.c, L, 1); place_forced(ax, L, 1); }
        else if (t.c.sh == c17::STRIDE || ax.sh == c17::STRIDE)
        {
            uint64_t s = STRIDES[1 + r.below(8)];
            place_forced(t.c, L, s); place_forced(ax, L, s);
        }
        else
        {
            place(t.c, L, true, r);
            for (int k = 0; k < L; k++) ax.pos[k] = t.c.pos[k];
            ax.ikind = IK_ALIASED; ax.stride = 0;
        }
        finish_placement(t.c, L, r);
        ax.lead = t.c.lead; ax.maxpos = t.c.maxpos; ax.tail = t.c.tail;
        Operand &other = t.alias == 2 ? t.a : t.b;
        place(other, L, false, r);
        finish_placement(other, L, r);
    }
    else
    {
        place(t.c, L, true, r);  finish_placement(t.c, L, r);
        place(t.a, L, false, r); finish_placement(t.a, L, r);
        place(t.b, L, false, r); finish_placement(t.b, L, r);
        // one trial in eight of the overloads with two memory inputs: both inputs are read from the SAME array (same base pointer);
        // with two index lists, b's list is half of the time a permutation / the reversal of a's
        if (is_mem(t.a.sh) && is_mem(t.b.sh) && (tseed & 7) == 4)
        {
            same_base = true;
            if (t.a.sh == c17::INDEX && t.b.sh == c17::INDEX && r.coin())
            {
                int perm[8];
                for (int k = 0; k < L; k++) perm[k] = r.coin() ? L - 1 - k : k;
                if (r.coin()) for (int k = L - 1; k > 0; k--) std::swap(perm[k], perm[r.below(k + 1)]);
                for (int k = 0; k < L; k++) t.b.pos[k] = t.a.pos[perm[k]];
                t.b.ikind = IK_ALIASED;
            }
            t.b.maxpos = 0;
            for (int k = 0; k < L; k++) t.b.maxpos = std::max(t.b.maxpos, t.b.pos[k]);
            uint64_t mx = std::max(t.a.maxpos, t.b.maxpos), tl = std::max(t.a.tail, t.b.tail), ld = std::max(t.a.lead, t.b.lead);
            t.a.lead = t.b.lead = ld; t.a.maxpos = t.b.maxpos = mx; t.a.tail = t.b.tail = tl;
        }
    }

    uint64_t sent[2];
    sent[0] = 0xC0DE000000000000ULL | (r.next() >> 16);
    sent[1] = 0x5EED000000000000ULL | (r.next() >> 16);

    // ---- arenas and input values
    Operand *ops[3] = {&t.c, &t.a, &t.b};
    for (int i = 0; i < 3; i++)
    {
        Operand &o = *ops[i];
        if (!is_mem(o.sh)) continue;
        if (i > 0 && t.alias == i) { o.ar = t.c.ar; continue; }
        if (i == 2 && same_base) { o.ar = t.a.ar; continue; }
        o.ar = cx.pool[i][arena_class(o)].get();
        o.ar->reset(sent[0]);
    }
    for (int i = 1; i < 3; i++)
    {
        Operand &o = *ops[i];
        if (is_mem(o.sh))
        {
            for (int k = 0; k < L; k++)
            {
                size_t cell = o.lead + o.pos[k];
                if (!(o.ar->designated[cell] & 1)) o.ar->set_in(cell, cx.g.pick(r));
                o.val[k] = o.ar->cells[cell];
            }
        }
        else if (o.sh == c17::BCAST)
        {
            o.bval = cx.g.pick(r);
            for (int k = 0; k < L; k++) o.val[k] = o.bval;
        }
        else if (o.sh == c17::REG)
            for (int k = 0; k < L; k++) o.val[k] = cx.g.pick(r);
    }
    if (is_mem(t.c.sh))
        for (int k = 0; k < L; k++) t.c.ar->mark_out(t.c.lead + t.c.pos[k]);

    // ---- expected result: the family convention
    bool nc_in = false;
    for (int k = 0; k < L; k++)
    {
        uint64_t av = t.a.val[k], bv = t.b.sh == c17::NONE ? 0 : t.b.val[k];
        if (av >= orc::PR || bv >= orc::PR) nc_in = true;
        switch (t.opc)
        {
        case 'c': t.exp[k] = av; break;
        case 'a': t.exp[k] = orc::add(av, bv); break;
        case 's': t.exp[k] = orc::sub(av, bv); break;
        default: t.exp[k] = orc::mul(av, bv); break;
        }
    }

    // ---- statistics
    st.trials++;
    if (t.alias) st.alias++;
    if (nc_in) st.noncanon_in++;
    st.shape_out[t.c.sh]++;
    if (t.c.sh == c17::STRIDE && t.c.sidx >= 0) st.stride_out[t.c.sidx]++;
    if (t.c.sh == c17::INDEX && t.c.ikind >= 0) st.idx_out[t.c.ikind]++;
    for (int i = 1; i < 3; i++)
    {
        Operand &o = *ops[i];
        st.shape_in[o.sh]++;
        if (o.sh == c17::STRIDE && o.sidx >= 0) st.stride_in[o.sidx]++;
        if (o.sh == c17::INDEX && o.ikind >= 0) st.idx_in[o.ikind]++;
    }
    if (same_base) st.same_base++;
    if (st.trials == 1) rep.sample(std::string(ov.family), describe_trial(t, tseed));

    uint64_t out[3][8];
    bool reported_value = false;
    for (int pass = 0; pass < 3; pass++)
    {
        if (pass == 2)
        {
            // third call: the SAME addresses / index lists, lane 0 unchanged, the other input values replaced - the result must
            // follow what is in memory and in the arguments now, not what was there at the previous call
            if (t.alias || reported_value) break;
            bool changed = false;
            for (int i = 1; i < 3; i++)
            {
                Operand &o = *ops[i];
                if (is_mem(o.sh)) { for (int k = 1; k < L; k++) { o.ar->cells[o.lead + o.pos[k]] = cx.g.pick(r); changed = true; } for (int k = 0; k < L; k++) o.val[k] = o.ar->cells[o.lead + o.pos[k]]; }
                else if (o.sh == c17::REG) { for (int k = 1; k < L; k++) o.val[k] = cx.g.pick(r); changed = true; }
            }
            if (!changed) break;
            if (same_base) // the two inputs share cells: what each lane reads is what is in the array after both were changed
                for (int i = 1; i < 3; i++)
                    for (int k = 0; k < L; k++) ops[i]->val[k] = ops[i]->ar->cells[ops[i]->lead + ops[i]->pos[k]];
            for (int k = 0; k < L; k++)
            {
                uint64_t av = t.a.val[k], bv = t.b.sh == c17::NONE ? 0 : t.b.val[k];
                switch (t.opc)
                {
                case 'c': t.exp[k] = av; break;
                case 'a': t.exp[k] = orc::add(av, bv); break;
                case 's': t.exp[k] = orc::sub(av, bv); break;
                default: t.exp[k] = orc::mul(av, bv); break;
                }
            }
            st.third_calls++;
        }
        if (pass == 1)
        {
            for (int i = 0; i < 3; i++)
            {
                Operand &o = *ops[i];
                if (!is_mem(o.sh) || (i > 0 && t.alias == i)) continue;
                o.ar->repaint(sent[1]);
            }
            // restore inputs that the first call legitimately overwrote (aliasing mode)
            if (t.alias)
                for (int k = 0; k < L; k++) ax.ar->cells[ax.lead + ax.pos[k]] = ax.val[k];
        }
        // previous contents of the result: never equal to the expected value, different in the two passes
        uint64_t pre[8];
        for (int k = 0; k < L; k++)
            pre[k] = t.is_copy ? (t.exp[k] ^ (0x1111111111111111ULL * (pass + 1))) : orc::add(t.exp[k], 1 + pass + (r.next() & 0xFFFF));
        if (is_mem(t.c.sh) && !t.alias)
            for (int k = 0; k < L; k++) t.c.ar->cells[t.c.lead + t.c.pos[k]] = pre[k];

        c17::Call x;
        uint64_t junk = sent[pass ? 1 : 0] * 0x9E3779B97F4A7C15ULL;
        fill_call_operand(t.c, x.c, x.sc, x.ic, x.vc, x.rc, L, junk);
        fill_call_operand(t.a, x.a, x.sa, x.ia, x.va, x.ra, L, junk + 1);
        fill_call_operand(t.b, x.b, x.sb, x.ib, x.vb, x.rb, L, junk + 2);
        if (t.c.sh == c17::REG)
            for (int k = 0; k < L; k++) x.rc[k] = pre[k];
        // one trial in four of the register-result overloads with a register input: the result register IS that input register
        if (t.c.sh == c17::REG && (t.a.sh == c17::REG || t.b.sh == c17::REG) && (tseed & 3) == 1)
        {
            x.regalias = (t.a.sh == c17::REG && t.b.sh == c17::REG) ? 1 + (int)((tseed >> 2) & 1) : (t.a.sh == c17::REG ? 1 : 2);
            if (pass == 0) st.regalias++;
        }
        // one trial in four of the overloads with a memory result and a broadcast scalar: the scalar argument is an lvalue that lives
        // in the result array (lane j's cell holds the scalar before the call) - every lane must still use the value that was passed
        if (is_mem(t.c.sh) && !t.alias && (t.a.sh == c17::BCAST || t.b.sh == c17::BCAST) && (tseed & 3) == 2)
        {
            int which = (t.a.sh == c17::BCAST && t.b.sh == c17::BCAST) ? 1 + (int)((tseed >> 2) & 1) : (t.a.sh == c17::BCAST ? 1 : 2);
            int j = (int)((tseed >> 3) % (uint64_t)L);
            x.bcast_alias = which;
            x.bcast_cell = t.c.pos[j];
            t.c.ar->cells[t.c.lead + t.c.pos[j]] = which == 1 ? t.a.bval : t.b.bval;
            if (pass == 0) st.bcast_alias++;
        }
        c17::Call before = x;

        ov.fn(x);
        st.calls++;

        for (int k = 0; k < L; k++) out[pass][k] = is_mem(t.c.sh) ? t.c.ar->cells[t.c.lead + t.c.pos[k]] : x.rc[k];

        // (1) values
        for (int k = 0; k < L && !reported_value; k++)
        {
            uint64_t got = out[pass][k];
            if (!t.is_copy && got >= orc::PR) st.noncanon_out++;
            bool ok = t.is_copy ? got == t.exp[k] : orc::canon(got) == t.exp[k];
            if (!ok)
            {
                reported_value = true;
                rep.violation(keystem + (pass == 2 ? "wrong-value:third-call-same-addresses-changed-contents" : "wrong-value"),
                              vf::J().raw("case", describe_trial(t, tseed)).u("pass", pass).u("lane", k).h("got", got).h("expected", t.exp[k])
                                  .raw("result_lanes", vf::jarr_hex(out[pass], L)).done());
            }
        }
        // (2) memory that must not change
        for (int i = 0; i < 3; i++)
        {
            Operand &o = *ops[i];
            if (!is_mem(o.sh) || (i > 0 && t.alias == i)) continue;
            long w = o.ar->first_stray_write();
            if (w >= 0)
                rep.violation(keystem + "stray-write",
                              vf::J().raw("case", describe_trial(t, tseed)).u("pass", pass).str("arena_of_operand", i == 0 ? "c" : i == 1 ? "a" : "b")
                                  .i("cell_relative_to_base", (int64_t)w - (int64_t)o.lead).h("found", o.ar->cells[w]).h("sentinel", o.ar->sent).done());
            if (i > 0)
                for (int k = 0; k < L; k++)
                    if (o.ar->cells[o.lead + o.pos[k]] != o.val[k])
                    {
                        rep.violation(keystem + "stray-write",
                                      vf::J().raw("case", describe_trial(t, tseed)).u("pass", pass).str("what", "input cell modified").str("operand", i == 1 ? "a" : "b")
                                          .u("lane", k).h("found", o.ar->cells[o.lead + o.pos[k]]).done());
                        break;
                    }
        }
        if (memcmp(before.ic, x.ic, sizeof x.ic) || memcmp(before.ia, x.ia, sizeof x.ia) || memcmp(before.ib, x.ib, sizeof x.ib) ||
            before.va.fe != x.va.fe || before.vb.fe != x.vb.fe)
            rep.violation(keystem + "stray-write", vf::J().raw("case", describe_trial(t, tseed)).u("pass", pass).str("what", "index list or broadcast argument modified").done());
    }
    // (4) exact extents: every memory input is an array that ends with its last designated element (the next byte is an unmapped
    //     page, or a malloc redzone under AddressSanitizer); a legal call - the values must still be right and nothing may fault
    if (!t.alias && !reported_value && (is_mem(t.a.sh) || is_mem(t.b.sh)) && (tseed & 3) != 1)
    {
        c17::Call x;
        uint64_t junk = sent[1] * 0x9E3779B97F4A7C15ULL + 7;
        fill_call_operand(t.c, x.c, x.sc, x.ic, x.vc, x.rc, L, junk);
        fill_call_operand(t.a, x.a, x.sa, x.ia, x.va, x.ra, L, junk + 1);
        fill_call_operand(t.b, x.b, x.sb, x.ib, x.vb, x.rb, L, junk + 2);
        uint64_t pre[8];
        for (int k = 0; k < L; k++) pre[k] = t.is_copy ? (t.exp[k] ^ 0x4444444444444444ULL) : orc::add(t.exp[k], 5);
        if (t.c.sh == c17::REG) for (int k = 0; k < L; k++) x.rc[k] = pre[k];
        if (is_mem(t.c.sh)) for (int k = 0; k < L; k++) t.c.ar->cells[t.c.lead + t.c.pos[k]] = pre[k];
        uint64_t *tofree[2] = {nullptr, nullptr};
        for (int i = 1; i < 3; i++)
        {
            Operand &o = *ops[i];
            if (!is_mem(o.sh)) continue;
            size_t n = o.maxpos + 1;
#if defined(__SANITIZE_ADDRESS__)
            uint64_t *buf = (uint64_t *)malloc(n * 8);
            tofree[i - 1] = buf;
#else
            arena::GuardBuf<uint64_t> &gb = i == 1 ? cx.exact_a : cx.exact_b;
            uint64_t *buf = gb.p + gb.n - n;
#endif
            memcpy(buf, &o.ar->cells[o.lead], n * 8);
            (i == 1 ? x.a : x.b) = reinterpret_cast<El *>(buf);
            for (int k = L; k < 8; k++) (i == 1 ? x.ia : x.ib)[k] = 0x7FFFFFFFFFFFFF00ULL + k; // entries beyond the lanes: never to be used
        }
        ov.fn(x);
        st.calls++;
        st.exact_calls++;
        for (int k = 0; k < L; k++)
        {
            uint64_t got = is_mem(t.c.sh) ? t.c.ar->cells[t.c.lead + t.c.pos[k]] : x.rc[k];
            bool ok = t.is_copy ? got == t.exp[k] : orc::canon(got) == t.exp[k];
            if (!ok)
            {
                rep.violation(keystem + "wrong-value:inputs-of-exact-extent", vf::J().raw("case", describe_trial(t, tseed)).u("lane", k).h("got", got).h("expected", t.exp[k]).done());
                break;
            }
        }
        for (uint64_t *q : tofree) free(q);
    }
    // (5) very large strides / index values (beyond 2^31 bytes and beyond 2^32 bytes between lanes): every strided or indexed memory
    //     operand is moved into a sparse mapping (pages are committed only where a designated element lies); values only
#if !defined(__SANITIZE_ADDRESS__)
    if (!t.alias && !reported_value && (tseed & 7) == 2 && st.huge_calls < 400 && (t.c.sh == c17::STRIDE || t.c.sh == c17::INDEX || t.a.sh == c17::STRIDE || t.a.sh == c17::INDEX || t.b.sh == c17::STRIDE || t.b.sh == c17::INDEX))
    {
        static const uint64_t HUGE[] = {(1ULL << 28) + 1, (1ULL << 28) + 3, 306783379ULL, (1ULL << 29) - 1, (1ULL << 29) + 5, 613566757ULL, (1ULL << 30) + 7};
        c17::Call x;
        uint64_t junk = sent[0] * 0x9E3779B97F4A7C15ULL + 11;
        fill_call_operand(t.c, x.c, x.sc, x.ic, x.vc, x.rc, L, junk);
        fill_call_operand(t.a, x.a, x.sa, x.ia, x.va, x.ra, L, junk + 1);
        fill_call_operand(t.b, x.b, x.sb, x.ib, x.vb, x.rb, L, junk + 2);
        uint64_t pre[8];
        for (int k = 0; k < L; k++) pre[k] = t.is_copy ? (t.exp[k] ^ 0x2222222222222222ULL) : orc::add(t.exp[k], 9);
        if (t.c.sh == c17::REG) for (int k = 0; k < L; k++) x.rc[k] = pre[k];
        if (is_mem(t.c.sh)) for (int k = 0; k < L; k++) t.c.ar->cells[t.c.lead + t.c.pos[k]] = pre[k];
        struct Map { void *p = nullptr; size_t len = 0; uint64_t pos[8]; } mp[3];
        bool ok_map = true;
        for (int i = 0; i < 3 && ok_map; i++)
        {
            Operand &o = *ops[i];
            if (o.sh != c17::STRIDE && o.sh != c17::INDEX) continue;
            uint64_t S = HUGE[(tseed >> (3 + 3 * i)) % 7];
            uint64_t mx = 0;
            for (int k = 0; k < L; k++)
            {
                // strided: lane k at k*S; indexed: the lanes keep their relative order of the small placement, spread S apart
                uint64_t rank = 0;
                if (o.sh == c17::STRIDE) rank = (uint64_t)k;
                else { for (int j = 0; j < L; j++) if (o.pos[j] < o.pos[k]) rank++; }
                mp[i].pos[k] = rank * S + (o.sh == c17::INDEX ? o.pos[k] % 5 : 0);
                // lanes that shared a cell before still share it
                if (o.sh == c17::INDEX) for (int j = 0; j < k; j++) if (o.pos[j] == o.pos[k]) mp[i].pos[k] = mp[i].pos[j];
                mx = std::max(mx, mp[i].pos[k]);
            }
            mp[i].len = (mx + 1) * 8;
            mp[i].p = mmap(NULL, mp[i].len, PROT_READ | PROT_WRITE, MAP_PRIVATE | MAP_ANONYMOUS | MAP_NORESERVE, -1, 0);
            if (mp[i].p == MAP_FAILED) { mp[i].p = nullptr; ok_map = false; break; }
            uint64_t *base = (uint64_t *)mp[i].p;
            for (int k = 0; k < L; k++) base[mp[i].pos[k]] = i == 0 ? pre[k] : o.val[k];
            El *&ptr = i == 0 ? x.c : (i == 1 ? x.a : x.b);
            uint64_t &st_ = i == 0 ? x.sc : (i == 1 ? x.sa : x.sb);
            uint64_t *ix = i == 0 ? x.ic : (i == 1 ? x.ia : x.ib);
            ptr = reinterpret_cast<El *>(base);
            if (o.sh == c17::STRIDE) st_ = S;
            else for (int k = 0; k < L; k++) ix[k] = mp[i].pos[k];
        }
        if (ok_map)
        {
            ov.fn(x);
            st.calls++;
            st.huge_calls++;
            for (int k = 0; k < L; k++)
            {
                uint64_t got = (t.c.sh == c17::STRIDE || t.c.sh == c17::INDEX) ? ((uint64_t *)mp[0].p)[mp[0].pos[k]] : (is_mem(t.c.sh) ? t.c.ar->cells[t.c.lead + t.c.pos[k]] : x.rc[k]);
                bool ok = t.is_copy ? got == t.exp[k] : orc::canon(got) == t.exp[k];
                if (!ok)
                {
                    rep.violation(keystem + "wrong-value:very-large-stride-or-index", vf::J().raw("case", describe_trial(t, tseed)).u("lane", k).h("got", got).h("expected", t.exp[k])
                                                                                       .u("stride_or_spread_c", mp[0].p ? mp[0].pos[L - 1] : 0).u("spread_a", mp[1].p ? mp[1].pos[L - 1] : 0).u("spread_b", mp[2].p ? mp[2].pos[L - 1] : 0).done());
                    break;
                }
            }
        }
        else
            st.huge_unavailable++;
        for (auto &m : mp) if (m.p) munmap(m.p, m.len);
    }
#endif
    // (3) result must not depend on anything outside the designated operands
    if (memcmp(out[0], out[1], sizeof(uint64_t) * L))
        rep.violation(keystem + "stray-read",
                      vf::J().raw("case", describe_trial(t, tseed)).raw("result_with_sentinel_1", vf::jarr_hex(out[0], L)).raw("result_with_sentinel_2", vf::jarr_hex(out[1], L))
                          .h("sentinel_1", sent[0]).h("sentinel_2", sent[1]).done());
    rep.evaluations++;
    rep.nontrivial(vf::mix64(tseed, 17));
}

static uint64_t str_hash(const std::string &s)
{
    uint64_t h = 0xcbf29ce484222325ULL;
    for (unsigned char ch : s) h = (h ^ ch) * 0x100000001b3ULL;
    return h;
}

static void flush_stats(const c17::Ov &ov, const Stats &st, vf::Report &rep)
{
    std::string f = ov.family;
    rep.cls("ov:" + f + ":" + ov.id);
    rep.cls("trials:" + f, st.trials);
    rep.cls("calls:" + f, st.calls);
    rep.cls("trials:op:" + std::string(ov.op), st.trials);
    rep.cls("mode:result_aliases_input", st.alias);
    rep.cls("mode:result_register_is_input_register", st.regalias);
    rep.cls("mode:third_call_same_addresses_changed_contents", st.third_calls);
    rep.cls("mode:inputs_of_exact_extent_before_unmapped_page_or_redzone", st.exact_calls);
    if (st.bcast_alias) rep.cls("mode:broadcast_scalar_is_an_lvalue_in_the_result_array", st.bcast_alias);
    if (st.same_base) rep.cls("mode:both_inputs_read_from_the_same_array", st.same_base);
    if (st.huge_calls) rep.cls("mode:very_large_stride_or_index(sparse_mapping)", st.huge_calls);
    if (st.huge_unavailable) rep.cls("mode:very_large_stride_unavailable(mmap_refused)", st.huge_unavailable);
    rep.cls("values:trials_with_noncanonical_input", st.noncanon_in);
    rep.cls("values:noncanonical_result_lanes", st.noncanon_out);
    for (int i = 0; i < 9; i++)
    {
        if (st.stride_in[i]) rep.cls("stride:in:" + vf::u2s(STRIDES[i]), st.stride_in[i]);
        if (st.stride_out[i]) rep.cls("stride:out:" + vf::u2s(STRIDES[i]), st.stride_out[i]);
    }
    for (int i = 0; i < IK_N; i++)
    {
        if (st.idx_in[i]) rep.cls(std::string("index:in:") + IK_NAME[i], st.idx_in[i]);
        if (st.idx_out[i]) rep.cls(std::string("index:out:") + IK_NAME[i], st.idx_out[i]);
    }
    for (int s = 1; s < 6; s++)
    {
        if (st.shape_in[s]) rep.cls(std::string("shape:in:") + shape_name((Shape)s), st.shape_in[s]);
        if (st.shape_out[s]) rep.cls(std::string("shape:out:") + shape_name((Shape)s), st.shape_out[s]);
    }
}

static void run_wrappers(const vf::Args &args, vf::Report &rep, const std::vector<c17::Ov> &all)
{
    uint64_t trials = args.getu("trials", args.thorough() ? 1000000 : 2000);
    uint64_t chunk = trials <= 4000 ? (trials + 3) / 4 : 25000;
    if (chunk == 0) chunk = 1;
    uint64_t nchunks = (trials + chunk - 1) / chunk;
    std::string only = args.get("only");
    std::vector<const c17::Ov *> run;
    for (const c17::Ov &o : all)
    {
        std::string full = std::string(o.family) + ":" + o.id;
        if (!only.empty() && full != only) continue;
        if (!o.defined)
        {
            if (args.shard == 0) rep.cls("undefined:" + full);
            continue;
        }
        if (!o.fn)
        {
            if (args.shard == 0) rep.cls(std::string("not_in_this_flavour:") + o.family);
            continue;
        }
        run.push_back(&o);
    }
    if (args.shard == 0) rep.cls("table:overloads_registered", all.size());
    vf::ForkCfg cfg;
    cfg.group = 16;
    cfg.nofork = args.nofork;
    cfg.errdir = args.errdir;
    cfg.family = "wrappers";
    cfg.case_timeout = 600;
    std::unique_ptr<Ctx> cx; // built lazily inside the child (or once when not forking)
    uint64_t n = run.size() * nchunks;
    auto desc = [&](uint64_t i) {
        const c17::Ov &o = *run[i / nchunks];
        return vf::J().str("overload", std::string(o.family) + ":" + o.id).str("signature", o.sig).u("chunk", i % nchunks).u("trials_per_chunk", chunk).done();
    };
    auto keyfn = [&](uint64_t i) {
        const c17::Ov &o = *run[i / nchunks];
        return std::string("C17:") + o.family + ":" + o.id;
    };
    auto body = [&](uint64_t i, vf::Report &r) {
        if (!cx) cx.reset(new Ctx());
        const c17::Ov &o = *run[i / nchunks];
        uint64_t ch = i % nchunks;
        uint64_t first = ch * chunk, last = std::min(trials, first + chunk);
        uint64_t base = vf::mix64(vf::mix64(args.seed, str_hash(std::string(o.family) + ":" + o.id)), 0xC17);
        Stats st;
        for (uint64_t tr = first; tr < last; tr++) run_trial(*cx, o, vf::mix64(base, tr), r, st);
        flush_stats(o, st, r);
        if (ch == 0)
        {
            // the same overload called by four threads at once, each on its own arenas and operands: a wrapper must not keep
            // per-process scratch that concurrent callers share
            const int T = 4;
            uint64_t nconc = std::min<uint64_t>(chunk, args.thorough() ? 4000 : 300);
            std::vector<std::unique_ptr<Ctx>> cxs;
            std::vector<vf::Report> reps(T);
            for (int t = 0; t < T; t++)
            {
                cxs.emplace_back(new Ctx());
                cxs[t]->keysuffix = "concurrent-callers:";
                reps[t].prop = r.prop; reps[t].out = r.out; reps[t].fd = r.fd; reps[t].t0 = vf::Report::now();
                reps[t].nt_cap = 64; reps[t].sample_cap = 0;
            }
            vf::team(T, [&](int me_) {
                int me = me_;
                Stats stl;
                for (uint64_t tr = 0; tr < nconc; tr++) run_trial(*cxs[me], o, vf::mix64(base ^ 0xC0C0C0ULL, (uint64_t)me * 1000003 + tr), reps[me], stl);
            });
            for (int t = 0; t < T; t++)
            {
                r.evaluations += reps[t].evaluations;
                for (auto &kv : reps[t].viol_seen) r.viol_seen[kv.first] += kv.second;
            }
            r.cls("mode:concurrent_callers_trials", nconc * T);
        }
    };
    auto mine = [&](uint64_t i) { return (int)(i % (uint64_t)args.nshards) == args.shard; };
    vf::run_forked(rep, n, cfg, desc, keyfn, body, mine);
}

// ------------------------------------------------------------------------------------------- parcpy / parSetZero
struct ParCase
{
    int func; // 0 parcpy, 1 parSetZero
    uint64_t size;
    int thr;
    int variant; // 0 guard page behind the last element, 1 guard page before the first element, 2 sentinel frame
};
static const char *PAR_FUNC[2] = {"parcpy", "parSetZero"};
static const char *PAR_VARIANT[3] = {"guard_upper", "guard_lower", "framed"};

static inline uint64_t par_val(uint64_t sd, uint64_t i) { return vf::mix64(sd, i) | 1; }

static std::string par_desc(const ParCase &c)
{
    return vf::J().str("function", PAR_FUNC[c.func]).u("size", c.size).i("num_threads_copy", c.thr).str("variant", PAR_VARIANT[c.variant]).done();
}

static void par_check(const ParCase &c, const El *dst, const El *src, uint64_t sd, vf::Report &rep)
{
    const std::string stem = std::string("C17:par:") + PAR_FUNC[c.func] + ":";
    uint64_t bad = 0, first = 0;
    for (uint64_t i = 0; i < c.size; i++)
    {
        uint64_t want = c.func == 0 ? par_val(sd, i) : 0;
        if (dst[i].fe != want) { if (!bad) first = i; bad++; }
    }
    if (bad)
        rep.violation(stem + "wrong-value", vf::J().raw("case", par_desc(c)).u("elements_not_transferred", bad).u("first_index", first).h("found", dst[first].fe).done());
    if (c.func == 0)
        for (uint64_t i = 0; i < c.size; i++)
            if (src[i].fe != par_val(sd, i))
            {
                rep.violation(stem + "source-modified", vf::J().raw("case", par_desc(c)).u("index", i).done());
                break;
            }
}

static void run_par_case(const ParCase &c, uint64_t sd, vf::Report &rep)
{
    const std::string stem = std::string("C17:par:") + PAR_FUNC[c.func] + ":";
    if (c.variant < 2)
    {
        bool upper = c.variant == 0;
        arena::GuardBuf<El> S(c.size, upper), D(c.size, upper);
        for (uint64_t i = 0; i < c.size; i++) { S.p[i].fe = par_val(sd, i); D.p[i].fe = ~par_val(sd, i) | 1; }
        if (c.func == 0) Goldilocks::parcpy(D.p, S.p, c.size, c.thr);
        else Goldilocks::parSetZero(D.p, c.size, c.thr);
        par_check(c, D.p, S.p, sd, rep);
    }
    else
    {
        uint64_t pad = 64 + std::min<uint64_t>(c.size, 4096);
        uint64_t sentv = 0xF4A3E00000000000ULL | (sd >> 20);
        std::vector<uint64_t> dblk(c.size + 2 * pad, sentv), sblk(c.size + 2 * pad, ~sentv);
        El *D = reinterpret_cast<El *>(dblk.data() + pad), *S = reinterpret_cast<El *>(sblk.data() + pad);
        for (uint64_t i = 0; i < c.size; i++) { S[i].fe = par_val(sd, i); D[i].fe = ~par_val(sd, i) | 1; }
        if (c.func == 0) Goldilocks::parcpy(D, S, c.size, c.thr);
        else Goldilocks::parSetZero(D, c.size, c.thr);
        par_check(c, D, S, sd, rep);
        for (uint64_t i = 0; i < dblk.size(); i++)
        {
            if (i >= pad && i < pad + c.size) continue;
            if (dblk[i] != sentv)
            {
                rep.violation(stem + "stray-write", vf::J().raw("case", par_desc(c)).i("cell_relative_to_dst", (int64_t)i - (int64_t)pad).h("found", dblk[i]).done());
                break;
            }
        }
        for (uint64_t i = 0; i < sblk.size(); i++)
        {
            if (i >= pad && i < pad + c.size) continue;
            if (sblk[i] != ~sentv)
            {
                rep.violation(stem + "source-modified", vf::J().raw("case", par_desc(c)).i("cell_relative_to_src", (int64_t)i - (int64_t)pad).done());
                break;
            }
        }
    }
    rep.evaluations++;
    rep.nontrivial(vf::mix64(c.size * 4 + c.variant, (uint64_t)(int64_t)c.thr * 2 + c.func));
    rep.cls(std::string("par:") + PAR_FUNC[c.func]);
    rep.cls("par:size:" + vf::u2s(c.size));
    rep.cls("par:variant:" + std::string(PAR_VARIANT[c.variant]));
    std::string ta = c.thr == INT_MIN ? "INT_MIN" : std::to_string(c.thr);
    if ((uint64_t)c.thr == c.size && c.thr > 64) ta = "size";
    else if ((uint64_t)c.thr == c.size + 1 && c.thr > 64) ta = "size+1";
    rep.cls("par:thread_arg:" + ta);
    if (c.thr < 1) rep.cls("par:thread_arg_nonpositive");
    if (c.size == 0) rep.cls("par:size_zero");
}

static void run_par(const vf::Args &args, vf::Report &rep)
{
    const uint64_t sizes[11] = {0, 1, 2, 3, 7, 8, 63, 64, 65, 1000, (1ULL << 20) + 3};
    long limit = getenv("OMP_THREAD_LIMIT") ? atol(getenv("OMP_THREAD_LIMIT")) : 0;
    std::vector<ParCase> cases;
    for (int f = 0; f < 2; f++)
        for (uint64_t sz : sizes)
        {
            std::vector<int> thr = {INT_MIN, -1, 0, 1, 2, 3, 7, 64, (int)sz, (int)sz + 1, 1000};
            std::vector<int> u;
            for (int t : thr) if (std::find(u.begin(), u.end(), t) == u.end()) u.push_back(t);
            for (int t : u)
                for (int v = 0; v < 3; v++) cases.push_back({f, sz, t, v});
        }
    if (args.shard == 0)
    {
        rep.cls("par:grid_cases", cases.size());
        rep.cls("par:omp_thread_limit:" + std::to_string(limit));
    }
    vf::ForkCfg cfg;
    cfg.group = 12;
    cfg.nofork = args.nofork;
    cfg.errdir = args.errdir;
    cfg.family = "par";
    cfg.case_timeout = 300;
    auto desc = [&](uint64_t i) { return par_desc(cases[i]); };
    auto keyfn = [&](uint64_t i) { return std::string("C17:par:") + PAR_FUNC[cases[i].func]; };
    auto body = [&](uint64_t i, vf::Report &r) { run_par_case(cases[i], vf::mix64(args.seed, i), r); };
    auto mine = [&](uint64_t i) { return (int)(i % (uint64_t)args.nshards) == args.shard; };
    vf::run_forked(rep, cases.size(), cfg, desc, keyfn, body, mine);
}

int main(int argc, char **argv)
{
    vf::Args args = vf::parse_args(argc, argv);
    std::string part = args.get("part", "all");
    // libgomp reads OMP_THREAD_LIMIT when it is loaded: cap the team size for thread arguments such as 2^20+3
    if ((part == "all" || part == "par") && !getenv("OMP_THREAD_LIMIT"))
    {
        setenv("OMP_THREAD_LIMIT", "1024", 1);
        execv("/proc/self/exe", argv);
    }
    vf::Report rep;
    rep.open(args.prop.empty() ? "C17" : args.prop, args.out);
    std::vector<c17::Ov> all;
    c17_register_0(all);
    c17_register_1(all);
    c17_register_2(all);
    c17_register_3(all);
    if (part == "all" || part == "wrappers") run_wrappers(args, rep, all);
    if (part == "all" || part == "par") run_par(args, rep);
    rep.finish();
    return 0;
}
