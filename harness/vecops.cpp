// C02 / C11: AVX2 / AVX-512 lane kernels versus the scalar oracle, every lane, documented preconditions only.
// C13 / C14: dot / sparse / dense 12-wide matrix kernels versus integer matrix-vector products mod p.
// Build with -D__AVX512__ -mavx512f for C11/C14.
#include "goldilocks_base_field.hpp"
#include "harness.hpp"
#include "oracle.hpp"
#include "gen.hpp"
#include "arena.hpp"

using vf::J;
using vf::Report;
using vf::Rng;
typedef Goldilocks::Element El;
typedef unsigned __int128 u128;
static const uint64_t PP = 0xFFFFFFFF00000001ULL;
static const uint64_t SMALL_MAX = 0xFFFFFFFF00000000ULL;
static const uint64_t MSBV = 0x8000000000000000ULL;

// ------------------------------------------------------------------ vector traits
struct V4
{
    static const int W = 4;
    typedef __m256i reg;
    static const char *tag() { return "avx2"; }
    static inline reg load(const uint64_t *p) { reg r; Goldilocks::load_avx(r, (const El *)p); return r; }
    static inline void store(uint64_t *p, const reg &r) { Goldilocks::store_avx((El *)p, r); }
};
#ifdef __AVX512__
struct V8
{
    static const int W = 8;
    typedef __m512i reg;
    static const char *tag() { return "avx512"; }
    static inline reg load(const uint64_t *p) { reg r; Goldilocks::load_avx512(r, (const El *)p); return r; }
    static inline void store(uint64_t *p, const reg &r) { Goldilocks::store_avx512((El *)p, r); }
};
#endif

// operand requirement of a kernel input
enum Req { ANY, CANON, SMALL, LT256, LT2_32, SHIFTED_ANY, SHIFTED_CANON };
// output interpretation
enum Out { CONGRUENT, EXACT_CANON, SHIFTED_CONGRUENT, SHIFTED_EXACT_CANON, INT128, INT_HI_LO_72 };
enum Math { M_ADD, M_SUB, M_MUL, M_SQR, M_CANON, M_RED128, M_RED96 };

template <class V>
struct Kernel
{
    const char *name;
    Req ra, rb;
    Out out;
    Math math;
    // fn: outputs o1 (and o2 for two-register results), inputs x, y
    void (*fn)(typename V::reg &o1, typename V::reg &o2, const typename V::reg &x, const typename V::reg &y);
};

static inline uint64_t constrain(uint64_t v, Req r, Rng &rng)
{
    switch (r)
    {
    case ANY: case SHIFTED_ANY: return v;
    case CANON: case SHIFTED_CANON: return v >= PP ? v - PP : v;
    case SMALL: return v > SMALL_MAX ? (rng.coin() ? SMALL_MAX - (0 - v - 1) % 3 : v - PP) : v;
    case LT256: return (v % 7 == 0) ? 255 - (v >> 8) % 3 : (v & 0xFF);
    case LT2_32: return (v % 5 == 0) ? 0xFFFFFFFFULL - (v >> 32) % 3 : (v & 0xFFFFFFFFULL);
    }
    return v;
}

template <class V>
struct LaneChecker
{
    Report &rep;
    const char *prop;
    LaneChecker(Report &r, const char *p) : rep(r), prop(p) {}

    // run one kernel on W lane pairs
    inline void run(const Kernel<V> &k, const uint64_t *a, const uint64_t *b, const char *family, int form = 0)
    {
        const int W = V::W;
        alignas(64) uint64_t xa[8], xb[8], o1[8], o2[8];
        for (int i = 0; i < W; i++)
        {
            xa[i] = (k.ra == SHIFTED_ANY || k.ra == SHIFTED_CANON) ? a[i] ^ MSBV : a[i];
            xb[i] = b[i];
        }
        typename V::reg ra = V::load(xa), rb = V::load(xb), r1 = V::load(xa), r2 = V::load(xb);
        // call forms: 0 separate result register, 1 result register IS the first operand register, 2 result IS the second operand,
        // 3 (two-register results) low half IS the first operand.  The library itself calls its kernels in place (add_avx(st0, st0, c0)).
        switch (form)
        {
        case 0: k.fn(r1, r2, ra, rb); break;
        case 1: r1 = ra; k.fn(r1, r2, r1, rb); break;
        case 2: r1 = rb; k.fn(r1, r2, ra, r1); break;
        default: r2 = ra; k.fn(r1, r2, r2, rb); break;
        }
        V::store(o1, r1);
        V::store(o2, r2);
        if (form == 0)
        {
            // the operand registers of a separate-result call must come back unchanged
            alignas(64) uint64_t ba[8], bb[8];
            V::store(ba, ra); V::store(bb, rb);
            if (memcmp(ba, xa, W * 8) || memcmp(bb, xb, W * 8))
                rep.violation(std::string(prop) + ":" + k.name + ":operand-register-modified", J().str("kernel", k.name).str("family", family).done());
        }
        rep.evaluations += W;
        for (int i = 0; i < W; i++)
        {
            uint64_t exp = 0;
            bool ok = true;
            uint64_t got = o1[i];
            switch (k.math)
            {
            case M_ADD: exp = orc::add(a[i], b[i]); break;
            case M_SUB: exp = orc::sub(a[i], b[i]); break;
            case M_MUL: exp = orc::mul(a[i], b[i]); break;
            case M_SQR: exp = orc::mul(a[i], a[i]); break;
            case M_CANON: exp = orc::canon(a[i]); break;
            case M_RED128: exp = orc::red128(((u128)a[i] << 64) | b[i]); break; // a = high word, b = low word
            case M_RED96: exp = orc::red128(((u128)a[i] << 64) | b[i]); break;
            }
            switch (k.out)
            {
            case CONGRUENT: ok = orc::canon(got) == exp; break;
            case EXACT_CANON: ok = got == exp; break;
            case SHIFTED_CONGRUENT: got ^= MSBV; ok = orc::canon(got) == exp; break;
            case SHIFTED_EXACT_CANON: got ^= MSBV; ok = got == exp; break;
            case INT128:
            case INT_HI_LO_72:
            {
                u128 pr = (k.math == M_SQR) ? (u128)a[i] * a[i] : (u128)a[i] * b[i];
                ok = o1[i] == (uint64_t)(pr >> 64) && o2[i] == (uint64_t)pr;
                exp = (uint64_t)(pr >> 64);
                break;
            }
            }
            if (!ok)
                rep.violation(std::string(prop) + ":" + k.name + (form == 0 ? ":wrong-lane-value" : (form == 1 ? ":wrong-lane-value:result-is-first-operand" : (form == 2 ? ":wrong-lane-value:result-is-second-operand" : ":wrong-lane-value:low-half-is-first-operand"))),
                              J().str("kernel", k.name).str("family", family).i("call_form", form).i("lane", i).h("a", a[i]).h("b", b[i]).h("got", o1[i]).h("got2", o2[i]).h("expected", exp).done());
        }
    }
};

// the same evaluation without reporting (used from several threads at once); returns the first bad lane or -1
template <class V>
static int quiet_eval(const Kernel<V> &k, const uint64_t *a, const uint64_t *b)
{
    const int W = V::W;
    alignas(64) uint64_t xa[8], xb[8], o1[8], o2[8];
    for (int i = 0; i < W; i++) { xa[i] = (k.ra == SHIFTED_ANY || k.ra == SHIFTED_CANON) ? a[i] ^ MSBV : a[i]; xb[i] = b[i]; }
    typename V::reg ra = V::load(xa), rb = V::load(xb), r1 = V::load(xa), r2 = V::load(xb);
    k.fn(r1, r2, ra, rb);
    V::store(o1, r1);
    V::store(o2, r2);
    for (int i = 0; i < W; i++)
    {
        uint64_t exp = 0, got = o1[i];
        switch (k.math)
        {
        case M_ADD: exp = orc::add(a[i], b[i]); break;
        case M_SUB: exp = orc::sub(a[i], b[i]); break;
        case M_MUL: exp = orc::mul(a[i], b[i]); break;
        case M_SQR: exp = orc::mul(a[i], a[i]); break;
        case M_CANON: exp = orc::canon(a[i]); break;
        default: exp = orc::red128(((u128)a[i] << 64) | b[i]); break;
        }
        bool ok = true;
        switch (k.out)
        {
        case CONGRUENT: ok = orc::canon(got) == exp; break;
        case EXACT_CANON: ok = got == exp; break;
        case SHIFTED_CONGRUENT: ok = orc::canon(got ^ MSBV) == exp; break;
        case SHIFTED_EXACT_CANON: ok = (got ^ MSBV) == exp; break;
        default:
        {
            u128 pr = (k.math == M_SQR) ? (u128)a[i] * a[i] : (u128)a[i] * b[i];
            ok = o1[i] == (uint64_t)(pr >> 64) && o2[i] == (uint64_t)pr;
        }
        }
        if (!ok) return i;
    }
    return -1;
}

// ------------------------------------------------------------------ kernel tables
#define KFN(V, body) [](typename V::reg &o1, typename V::reg &o2, const typename V::reg &x, const typename V::reg &y) { (void)o2; (void)y; body; }

static std::vector<Kernel<V4>> kernels4()
{
    typedef V4 V;
    std::vector<Kernel<V>> k = {
        {"toCanonical_avx", ANY, ANY, EXACT_CANON, M_CANON, KFN(V, Goldilocks::toCanonical_avx(o1, x))},
        {"toCanonical_avx_s", SHIFTED_ANY, ANY, SHIFTED_EXACT_CANON, M_CANON, KFN(V, Goldilocks::toCanonical_avx_s(o1, x))},
        {"add_avx", ANY, ANY, CONGRUENT, M_ADD, KFN(V, Goldilocks::add_avx(o1, x, y))},
        {"add_avx_a_sc", SHIFTED_CANON, ANY, CONGRUENT, M_ADD, KFN(V, Goldilocks::add_avx_a_sc(o1, x, y))},
        {"add_avx_s_b_small", SHIFTED_ANY, SMALL, SHIFTED_CONGRUENT, M_ADD, KFN(V, Goldilocks::add_avx_s_b_small(o1, x, y))},
        {"add_avx_b_small", ANY, SMALL, CONGRUENT, M_ADD, KFN(V, Goldilocks::add_avx_b_small(o1, x, y))},
        {"sub_avx", ANY, ANY, CONGRUENT, M_SUB, KFN(V, Goldilocks::sub_avx(o1, x, y))},
        {"sub_avx_s_b_small", SHIFTED_ANY, SMALL, SHIFTED_CONGRUENT, M_SUB, KFN(V, Goldilocks::sub_avx_s_b_small(o1, x, y))},
        {"mult_avx", ANY, ANY, CONGRUENT, M_MUL, KFN(V, Goldilocks::mult_avx(o1, x, y))},
        {"mult_avx_8", ANY, LT256, CONGRUENT, M_MUL, KFN(V, Goldilocks::mult_avx_8(o1, x, y))},
        {"mult_avx_128", ANY, ANY, INT128, M_MUL, KFN(V, Goldilocks::mult_avx_128(o1, o2, x, y))},
        {"mult_avx_72", ANY, LT256, INT_HI_LO_72, M_MUL, KFN(V, Goldilocks::mult_avx_72(o1, o2, x, y))},
        {"reduce_avx_128_64", ANY, ANY, CONGRUENT, M_RED128, KFN(V, Goldilocks::reduce_avx_128_64(o1, x, y))},
        {"reduce_avx_96_64", LT2_32, ANY, CONGRUENT, M_RED96, KFN(V, Goldilocks::reduce_avx_96_64(o1, x, y))},
        {"square_avx", ANY, ANY, CONGRUENT, M_SQR, KFN(V, { typename V::reg t = x; Goldilocks::square_avx(o1, t); })},
        {"square_avx_128", ANY, ANY, INT128, M_SQR, KFN(V, Goldilocks::square_avx_128(o1, o2, x))},
    };
    return k;
}
#ifdef __AVX512__
static std::vector<Kernel<V8>> kernels8()
{
    typedef V8 V;
    std::vector<Kernel<V>> k = {
        {"toCanonical_avx512", ANY, ANY, EXACT_CANON, M_CANON, KFN(V, Goldilocks::toCanonical_avx512(o1, x))},
        {"add_avx512", ANY, ANY, CONGRUENT, M_ADD, KFN(V, Goldilocks::add_avx512(o1, x, y))},
        {"add_avx512_b_c", ANY, CANON, CONGRUENT, M_ADD, KFN(V, Goldilocks::add_avx512_b_c(o1, x, y))},
        {"sub_avx512", ANY, ANY, CONGRUENT, M_SUB, KFN(V, Goldilocks::sub_avx512(o1, x, y))},
        {"sub_avx512_b_c", ANY, CANON, CONGRUENT, M_SUB, KFN(V, Goldilocks::sub_avx512_b_c(o1, x, y))},
        {"mult_avx512", ANY, ANY, CONGRUENT, M_MUL, KFN(V, Goldilocks::mult_avx512(o1, x, y))},
        {"mult_avx512_8", ANY, LT256, CONGRUENT, M_MUL, KFN(V, Goldilocks::mult_avx512_8(o1, x, y))},
        {"mult_avx512_128", ANY, ANY, INT128, M_MUL, KFN(V, Goldilocks::mult_avx512_128(o1, o2, x, y))},
        {"mult_avx512_72", ANY, LT256, INT_HI_LO_72, M_MUL, KFN(V, Goldilocks::mult_avx512_72(o1, o2, x, y))},
        {"reduce_avx512_128_64", ANY, ANY, CONGRUENT, M_RED128, KFN(V, Goldilocks::reduce_avx512_128_64(o1, x, y))},
        {"reduce_avx512_96_64", LT2_32, ANY, CONGRUENT, M_RED96, KFN(V, Goldilocks::reduce_avx512_96_64(o1, x, y))},
        {"square_avx512", ANY, ANY, CONGRUENT, M_SQR, KFN(V, { typename V::reg t = x; Goldilocks::square_avx512(o1, t); })},
        {"square_avx512_128", ANY, ANY, INT128, M_SQR, KFN(V, Goldilocks::square_avx512_128(o1, o2, x))},
    };
    return k;
}
#endif

// shadow classes for lane kernels (evidence + required classes)
struct LaneClasses
{
    uint64_t *add_ovf[2], *a_ge_p[2], *small_eq_high, *small_carry_cross, *sub_under[2], *out_ge_p, *b_at_small_max, *mul_hilo_f, *mul_hihi_f, *mul_hi0;
    LaneClasses(Report &r)
    {
        add_ovf[0] = &r.counter("lane:add_no_overflow"); add_ovf[1] = &r.counter("lane:add_overflow_corrected");
        a_ge_p[0] = &r.counter("lane:a_canonical"); a_ge_p[1] = &r.counter("lane:a_noncanonical_canonicalised");
        small_eq_high = &r.counter("lane:small_equal_high_halves"); small_carry_cross = &r.counter("lane:small_low_half_carry");
        sub_under[0] = &r.counter("lane:sub_no_underflow"); sub_under[1] = &r.counter("lane:sub_underflow_corrected");
        out_ge_p = &r.counter("lane:true_sum_or_diff_noncanonical_band"); b_at_small_max = &r.counter("lane:b_equals_0xFFFFFFFF00000000");
        mul_hilo_f = &r.counter("lane:mul_hi_lo_ffffffff"); mul_hihi_f = &r.counter("lane:mul_hi_hi_ffffffff"); mul_hi0 = &r.counter("lane:mul_hi_zero");
    }
    inline bool classify(uint64_t a, uint64_t b)
    {
        bool nt = false;
        uint64_t ac = orc::canon(a);
        (*a_ge_p[a >= PP])++;
        if (a >= PP) nt = true;
        u128 s = (u128)ac + b;
        int ov = (s >> 64) ? 1 : 0;
        (*add_ovf[ov])++;
        if (ov) nt = true;
        // 32-bit shortcut: equal high halves of a and a+b(small)
        uint64_t c0 = a + b;
        if ((c0 >> 32) == (a >> 32) && b != 0) { (*small_eq_high)++; nt = true; }
        if (((a & 0xFFFFFFFFULL) + (b & 0xFFFFFFFFULL)) >> 32) (*small_carry_cross)++;
        int un = orc::canon(b) > a ? 1 : 0;
        (*sub_under[un])++;
        if (un) nt = true;
        if ((uint64_t)s >= PP && !ov) { (*out_ge_p)++; nt = true; }
        if (b == SMALL_MAX) { (*b_at_small_max)++; nt = true; }
        u128 pr = (u128)a * b;
        uint64_t hi = (uint64_t)(pr >> 64);
        if (hi == 0) (*mul_hi0)++;
        if ((hi & 0xFFFFFFFFULL) == 0xFFFFFFFFULL) { (*mul_hilo_f)++; nt = true; }
        if ((hi >> 32) == 0xFFFFFFFFULL) { (*mul_hihi_f)++; nt = true; }
        return nt;
    }
};

template <class V>
static void run_lanes(const vf::Args &args, Report &rep, const std::vector<Kernel<V>> &K, const char *prop)
{
    const int W = V::W;
    LaneChecker<V> lc(rep, prop);
    LaneClasses cls(rep);
    gen::G64 g;
    Rng rng(vf::mix64(args.seed, 0x2000 + args.shard * 31337 + W));
    auto mine = [&](uint64_t i) { return (int)(i % args.nshards) == args.shard; };
    // pair stream -> packs of W pairs with rotating lane position; each pack is constrained per kernel
    uint64_t pa[8], pb[8];
    int fill = 0;
    uint64_t rot = 0;
    uint64_t &inplace_calls = rep.counter("lane:in_place_call_forms");
    Rng crng(12345);
    auto flush = [&](const char *family) {
        if (fill == 0) return;
        for (int i = fill; i < W; i++) { pa[i] = pa[i - fill]; pb[i] = pb[i - fill]; }
        // rotate lanes
        uint64_t ra[8], rb[8];
        for (int i = 0; i < W; i++) { ra[(i + rot) % W] = pa[i]; rb[(i + rot) % W] = pb[i]; }
        rot++;
        for (const auto &k : K)
        {
            uint64_t ca[8], cb[8];
            for (int i = 0; i < W; i++) { ca[i] = constrain(ra[i], k.ra, crng); cb[i] = constrain(rb[i], k.rb, crng); }
            lc.run(k, ca, cb, family);
            // in-place forms on a rotating third of the packs
            if ((rot + (&k - &K[0])) % 3 == 0)
            {
                bool two = k.out == INT128 || k.out == INT_HI_LO_72;
                bool unary = k.math == M_SQR || k.math == M_CANON;
                lc.run(k, ca, cb, family, 1);
                if (!unary) lc.run(k, ca, cb, family, 2);
                if (two) lc.run(k, ca, cb, family, 3);
                inplace_calls++;
            }
        }
        fill = 0;
    };
    int sampled = 0;
    const char *cur_family = "";
    auto push = [&](const char *family, uint64_t a, uint64_t b) {
        if (family != cur_family) { flush(cur_family); cur_family = family; sampled = 0; }
        if (cls.classify(a, b)) rep.nontrivial(vf::mix64(a, b));
        if (sampled < 2) { rep.sample(family, J().h("a", a).h("b", b).str("note", "packed W per call, lane rotated, constrained per kernel precondition").done()); sampled++; }
        pa[fill] = a; pb[fill] = b;
        if (++fill == W) flush(family);
    };
    // (1) fixed x fixed
    {
        const std::vector<uint64_t> &F = g.fixed;
        uint64_t idx = 0;
        for (size_t i = 0; i < F.size(); i++)
            for (size_t j = 0; j < F.size(); j += 1)
            {
                if (mine(idx / W)) push("fixed_x_fixed", F[i], F[j]);
                idx++;
            }
        flush("fixed_x_fixed");
        rep.cls("family:fixed_x_fixed");
    }
    // (2) the "_small" decisive grid: a_h in B32, a_l + b_l just below/at/above 2^32, b in {[0,2^32), hi=0xFFFFFFFF & lo=0, random canonical}
    {
        const uint32_t B32[] = {0u, 1u, 2u, 0x7FFFFFFFu, 0x80000000u, 0x80000001u, 0xFFFFFFFEu, 0xFFFFFFFFu, 0x7FFFFFFEu, 0x12345678u};
        Rng r2(0x5AA11);
        uint64_t idx = 0;
        for (uint32_t ah : B32)
            for (uint32_t bh : B32)
                for (int d = -2; d <= 2; d++)
                    for (int t = 0; t < 6; t++)
                    {
                        uint32_t al = t == 0 ? 0 : (t == 1 ? 0xFFFFFFFFu : (uint32_t)r2.next());
                        uint32_t bl = (uint32_t)(0x100000000ULL - al + d);
                        if (bh == 0xFFFFFFFFu) bl = 0; // keep b <= 0xFFFFFFFF00000000
                        uint64_t a = ((uint64_t)ah << 32) | al, b = ((uint64_t)bh << 32) | bl;
                        if (mine(idx / W)) push("small_grid", a, b);
                        idx++;
                    }
        flush("small_grid");
        rep.cls("family:small_grid");
    }
    // (3) solve-for sums / differences around 2^64, p, 2p
    {
        Rng r2(0xADD2);
        const u128 S[] = {((u128)1 << 64) - 1, (u128)1 << 64, ((u128)1 << 64) + 1, (u128)PP, (u128)PP - 1, (u128)PP + 1, (u128)2 * PP - 1, (u128)2 * PP, (u128)2 * PP + 1, ((u128)1 << 64) + 0xFFFFFFFEULL, ((u128)1 << 64) + 0xFFFFFFFFULL};
        uint64_t idx = 0;
        for (const u128 &s : S)
            for (int t = 0; t < 3000; t++)
            {
                uint64_t a = g.pick(r2);
                if (s < a) continue;
                u128 d = s - a;
                if (d >> 64) continue;
                if (mine(idx / W)) push("solve_sum", a, (uint64_t)d);
                idx++;
            }
        flush("solve_sum");
        rep.cls("family:solve_sum");
    }
    // (4) product targets (hi patterns)
    {
        Rng r2(0x3012);
        uint64_t idx = 0;
        for (int t = 0; t < 120000; t++)
        {
            uint64_t hi_hi, hi_lo, lo;
            switch (r2.below(5))
            {
            case 0: hi_hi = r2.next() & 0xFFFFFFFF; hi_lo = 0xFFFFFFFF; lo = ~r2.below(1ULL << 33); break;
            case 1: hi_hi = 0xFFFFFFFF - r2.below(3); hi_lo = r2.next() & 0xFFFFFFFF; lo = r2.below(1ULL << 34); break;
            case 2: hi_hi = r2.next() & 0xFFFFFFFF; hi_lo = r2.below(3); lo = r2.below(1ULL << 33); break;
            case 3: hi_hi = r2.next() & 0xFFFFFFFF; hi_lo = r2.next() & 0xFFFFFFFF; lo = (hi_hi - hi_lo * 0xFFFFFFFFULL) + r2.below(5) - 2; break;
            default: hi_hi = 0; hi_lo = 0; lo = PP + r2.below(0xFFFFFFFFULL); break; // product exactly in the non-canonical band
            }
            u128 T = ((u128)((hi_hi << 32) | hi_lo) << 64) | lo;
            uint64_t a = g.pick(r2) | (1ULL << (r2.below(64)));
            if (hi_hi == 0 && hi_lo == 0) a = 1 + r2.below(r2.coin() ? 255 : 0xFFFFFFFFULL);
            u128 q = T / a;
            if (q >> 64) { a |= 1ULL << 63; q = T / a; }
            if (q >> 64) continue;
            if (mine(idx / W)) { push("product_target", a, (uint64_t)q); push("product_target", (uint64_t)q, a); }
            idx++;
        }
        flush("product_target");
        rep.cls("family:product_target");
    }
    // (5) random filler
    {
        uint64_t n = args.getu("random", args.thorough() ? 2000000000ULL : 20000000ULL) / args.nshards;
        for (uint64_t t = 0; t < n; t++) push("mixed_random", g.pick(rng), g.pick(rng));
        flush("mixed_random");
        rep.cls("family:mixed_random");
    }
    // (6) concurrent callers: eight threads, each with its own operands, all kernels (a lane kernel must not share scratch between callers)
    {
        const int T = 8;
        uint64_t n = args.getu("concurrent", args.thorough() ? 4000000ULL : 400000ULL) / args.nshards / T;
        struct Bad { int kernel = -1, lane = 0; uint64_t a[8], b[8]; } bad[T];
        uint64_t seeds[T];
        for (int t = 0; t < T; t++) seeds[t] = vf::mix64(args.seed, 0xCC00 + args.shard * 977 + t);
        vf::team(T, [&](int me_) {
            int me = me_;
            Rng q(seeds[me]), cq(seeds[me] ^ 0x55);
            for (uint64_t t = 0; t < n; t++)
            {
                uint64_t a[8], b[8];
                for (int i = 0; i < W; i++) { a[i] = g.pick(q); b[i] = g.pick(q); }
                for (size_t ki = 0; ki < K.size(); ki++)
                {
                    uint64_t ca[8], cb[8];
                    for (int i = 0; i < W; i++) { ca[i] = constrain(a[i], K[ki].ra, cq); cb[i] = constrain(b[i], K[ki].rb, cq); }
                    int bl = quiet_eval<V>(K[ki], ca, cb);
                    if (bl >= 0 && bad[me].kernel < 0) { bad[me].kernel = (int)ki; bad[me].lane = bl; memcpy(bad[me].a, ca, sizeof ca); memcpy(bad[me].b, cb, sizeof cb); }
                }
            }
        });
        for (int t = 0; t < T; t++)
            if (bad[t].kernel >= 0)
                rep.violation(std::string(prop) + ":" + K[bad[t].kernel].name + ":concurrent-callers:wrong-lane-value",
                              J().str("kernel", K[bad[t].kernel].name).i("lane", bad[t].lane).h("a", bad[t].a[bad[t].lane]).h("b", bad[t].b[bad[t].lane]).str("what", "8 threads calling the kernels at the same time on their own operands").done());
        rep.evaluations += n * T * K.size() * W;
        rep.cls("family:concurrent_callers", n * T);
    }
    rep.cls(std::string("kernels:") + V::tag(), K.size());
    // (7) load/store/set variants: aligned and unaligned round trip (AVX2 only has set_avx)
}

// ================================================================================== matrix kernels (C13 / C14)
// oracle: state s[12] (canonical), coefficient arrays
static inline void o_spmv(uint64_t c[4], const uint64_t s[12], const uint64_t b[12])
{
    for (int i = 0; i < 4; i++)
    {
        uint64_t acc = 0;
        for (int j = 0; j < 3; j++) acc = orc::add(acc, orc::mul(s[4 * j + i], b[4 * j + i]));
        c[i] = acc;
    }
}
static inline uint64_t o_dot(const uint64_t s[12], const uint64_t b[12])
{
    uint64_t acc = 0;
    for (int i = 0; i < 12; i++) acc = orc::add(acc, orc::mul(s[i], b[i]));
    return acc;
}
static inline void o_mmult_rows(uint64_t *out, int nrows, const uint64_t s[12], const uint64_t *M)
{
    for (int k = 0; k < nrows; k++) out[k] = o_dot(s, M + 12 * k);
}

struct MatGen
{
    gen::G64 g;
    // fill state and coefficient array for one trial; family selects the style; m8 = coefficients must be < 256
    void fill(Rng &r, int family, uint64_t *state, int nstate, uint64_t *coef, int ncoef, bool m8, uint64_t *band_hits)
    {
        switch (family)
        {
        case 0: // uniform
            for (int i = 0; i < nstate; i++) state[i] = r.next();
            for (int i = 0; i < ncoef; i++) coef[i] = m8 ? r.below(256) : r.next();
            break;
        case 1: // boundary values everywhere
            for (int i = 0; i < nstate; i++) state[i] = g.fixed[r.below(g.fixed.size())];
            for (int i = 0; i < ncoef; i++) coef[i] = m8 ? (r.coin() ? 255 - r.below(3) : r.below(3)) : g.fixed[r.below(g.fixed.size())];
            break;
        case 2: // band-directed: lane products land exactly in [p, 2^64)
        {
            for (int i = 0; i < ncoef; i++) coef[i] = m8 ? 1 + r.below(255) : 1 + r.below(r.coin() ? 255 : 0xFFFF);
            // choose which state positions are banded: 1..all; for each banded position pick one row (coefficient) to solve against
            int row_stride = 12;
            int nrows = ncoef / 12;
            for (int i = 0; i < nstate; i++)
            {
                int si = i % 12;
                int row = (int)r.below(nrows);
                uint64_t bco = coef[row * row_stride + si];
                uint64_t t = PP + r.below(0xFFFFFFFFULL);
                if (r.below(4) == 0) t = 0xFFFFFFFFFFFFFFFFULL - r.below(3);
                if (r.below(3) == 0)
                    state[i] = g.pick(r);
                else
                {
                    state[i] = t / bco;
                    if (band_hits && (u128)state[i] * bco >= PP) (*band_hits)++;
                }
            }
            // make several rows share the same coefficients so that the band shows in >= 2 addends / >= 2 lanes of a row
            if (nrows > 1 && r.coin())
                for (int k = 1; k < nrows; k++)
                    if (r.coin()) for (int i = 0; i < 12; i++) coef[k * 12 + i] = coef[i];
            break;
        }
        case 3: // classic: 3 * 0x5555555555555555 = 2^64-1 in every lane
            for (int i = 0; i < nstate; i++) state[i] = r.below(3) == 0 ? 0x5555555555555555ULL : (r.coin() ? 3 : g.pick(r));
            for (int i = 0; i < ncoef; i++) coef[i] = r.below(3) == 0 ? 3 : (m8 ? r.below(256) : (r.coin() ? 0x5555555555555555ULL : 1 + r.below(255)));
            break;
        case 5: // coefficients whose low 32-bit word is an 8-bit value but whose high word is set (p-1, p, 2^32, x+p ...): "looks 8-bit" in the low word only
        {
            static const uint64_t HI[] = {0, 0, 1, 0xFFFFFFFFULL, 0x80000000ULL, 0x7FFFFFFFULL, 0xFFFFFFFEULL};
            bool any = false;
            for (int i = 0; i < ncoef; i++)
            {
                uint64_t hi = m8 ? 0 : (r.below(4) == 0 ? HI[r.below(7)] : 0);
                if (r.below(16) == 0 && !m8) hi = r.next() >> 32;
                coef[i] = (hi << 32) | r.below(256);
                if (hi) any = true;
            }
            if (!any && !m8) coef[r.below(ncoef)] = 0xFFFFFFFF00000000ULL;
            for (int i = 0; i < nstate; i++) state[i] = r.coin() ? g.pick(r) : r.next();
            break;
        }
        case 6: // every coefficient below 2^32 (most of them near the top of that range), large states: 32x64-bit products whose high words add up past 2^32
            for (int i = 0; i < ncoef; i++) coef[i] = m8 ? r.below(256) : (r.below(3) == 0 ? r.next() >> 32 : 0xFFFFFFFFULL - r.below(r.coin() ? 4 : 1 << 20));
            for (int i = 0; i < nstate; i++) state[i] = r.below(3) == 0 ? g.pick(r) : (r.coin() ? r.next() | 0xFFFF000000000000ULL : PP - 1 - r.below(1ULL << 34));
            break;
        default: // quotient-like states against 8-bit coefficients floor((2^64-1)/m)
            for (int i = 0; i < ncoef; i++) coef[i] = m8 ? r.below(256) : r.below(1 << 16);
            for (int i = 0; i < nstate; i++)
            {
                uint64_t m = 1 + r.below(255);
                state[i] = 0xFFFFFFFFFFFFFFFFULL / m - r.below(2);
            }
            break;
        }
    }
};
static const char *MATFAM[] = {"uniform", "boundary", "band_directed", "three_times_5555", "quotient_like", "low_word_8bit_high_word_set", "coefficients_below_2^32"};

static void mat_fail(Report &rep, const char *prop, const std::string &kernel, const char *family, int st, int pos, uint64_t got, uint64_t exp, const uint64_t *state, int nstate, const uint64_t *coef, int ncoef)
{
    rep.violation(std::string(prop) + ":" + kernel + ":wrong-value",
                  J().str("kernel", kernel).str("family", family).i("state_index", st).i("position", pos).h("got", got).h("expected", exp)
                      .raw("state", vf::jarr_hex(state, nstate)).raw("coef", vf::jarr_hex(coef, ncoef > 48 ? 48 : ncoef)).done());
}

static void run_mat4(const vf::Args &args, Report &rep)
{
    const char *prop = "C13";
    MatGen mg;
    Rng rng(vf::mix64(args.seed, 0x1300 + args.shard * 7717));
    uint64_t n = args.getu("trials", args.thorough() ? 30000000ULL : 400000ULL) / args.nshards;
    uint64_t &band = rep.counter("band:state_positions_with_product_in_[p,2^64)");
    uint64_t &probe_nc = rep.counter("band:probed_lane_products_noncanonical");
    uint64_t &probe_two = rep.counter("band:probed_two_or_more_noncanonical_addends_in_one_lane");
    alignas(32) uint64_t Ma[144 + 8];
    uint64_t Mu[144 + 4];
    for (uint64_t t = 0; t < n; t++)
    {
        int fam = (int)(t % 7);
        uint64_t s[12];
        uint64_t coef[144];
        bool m8 = (t / 7) % 2 == 1;
        mg.fill(rng, fam, s, 12, coef, 144, m8, &band);
        uint64_t sc[12];
        for (int i = 0; i < 12; i++) sc[i] = orc::canon(s[i]);
        // second pass (every third trial): the matrix at the same addresses with the same leading coefficients and other entries changed
        for (int pass = 0; pass < (t % 3 == 0 ? 2 : 1); pass++)
        {
        const char *sfx = pass ? ":changed-matrix-at-the-same-address" : "";
        if (pass)
        {
            for (int i = 4; i < 144; i++)
                if (i >= 12 ? rng.coin() : rng.below(4) == 0) coef[i] = m8 ? rng.below(256) : (rng.coin() ? rng.next() : rng.next() >> 32);
            rep.cls("forms:changed_matrix_at_the_same_address");
        }
        int off = (int)(t % 4); // unaligned offset in elements
        memcpy(Ma, coef, sizeof coef);
        memcpy(Mu + off, coef, sizeof coef);
        __m256i a0 = V4::load(s), a1 = V4::load(s + 4), a2 = V4::load(s + 8);
        rep.evaluations++;
        if (t < 10) rep.sample(MATFAM[fam], J().raw("state", vf::jarr_hex(s, 12)).raw("coef_first_row", vf::jarr_hex(coef, 12)).b("eight_bit", m8).done());
        // probe intermediate lane products of row 0 (evidence only)
        {
            uint64_t o[4];
            int nc[4] = {0, 0, 0, 0};
            for (int j = 0; j < 3; j++)
            {
                __m256i pr, bj = V4::load(coef + 4 * j);
                Goldilocks::mult_avx(pr, j == 0 ? a0 : (j == 1 ? a1 : a2), bj);
                V4::store(o, pr);
                for (int i = 0; i < 4; i++) if (o[i] >= PP) { nc[i]++; probe_nc++; }
            }
            for (int i = 0; i < 4; i++) if (nc[i] >= 2) probe_two++;
        }
        uint64_t e4[4], got[4], e12[12], g12[12];
        __m256i c;
        // spmv / dot
        o_spmv(e4, sc, coef);
        uint64_t edot = o_dot(sc, coef);
#define CHK4(KN, CALL)                                                                                     \
    do                                                                                                     \
    {                                                                                                      \
        CALL;                                                                                              \
        V4::store(got, c);                                                                                 \
        for (int i = 0; i < 4; i++) if (orc::canon(got[i]) != e4[i]) mat_fail(rep, prop, std::string(KN) + sfx, MATFAM[fam], 0, i, got[i], e4[i], s, 12, coef, 12); \
    } while (0)
        CHK4("spmv_avx_4x12", Goldilocks::spmv_avx_4x12(c, a0, a1, a2, (El *)(Mu + off)));
        CHK4("spmv_avx_4x12_a", Goldilocks::spmv_avx_4x12_a(c, a0, a1, a2, (El *)Ma));
        if (m8) CHK4("spmv_avx_4x12_8", Goldilocks::spmv_avx_4x12_8(c, a0, a1, a2, (El *)(Mu + off)));
        {
            El d = Goldilocks::dot_avx(a0, a1, a2, (El *)(Mu + off));
            if (orc::canon(d.fe) != edot) mat_fail(rep, prop, std::string("dot_avx") + sfx, MATFAM[fam], 0, 0, d.fe, edot, s, 12, coef, 12);
            El d2 = Goldilocks::dot_avx_a(a0, a1, a2, (El *)Ma);
            if (orc::canon(d2.fe) != edot) mat_fail(rep, prop, std::string("dot_avx_a") + sfx, MATFAM[fam], 0, 0, d2.fe, edot, s, 12, coef, 12);
        }
        // the same kernels with the result register being one of the state registers (rotating which one)
        {
            int al = (int)(t % 3);
#define ALIAS4(KN, FN, MP)                                                                                  \
    do                                                                                                     \
    {                                                                                                      \
        __m256i x0 = a0, x1 = a1, x2 = a2;                                                                 \
        if (al == 0) { FN(x0, x0, x1, x2, MP); c = x0; } else if (al == 1) { FN(x1, x0, x1, x2, MP); c = x1; } else { FN(x2, x0, x1, x2, MP); c = x2; } \
        V4::store(got, c);                                                                                 \
        for (int i = 0; i < 4; i++) if (orc::canon(got[i]) != e4[i]) mat_fail(rep, prop, std::string(KN ":result-is-a-state-register") + sfx, MATFAM[fam], al, i, got[i], e4[i], s, 12, coef, 12); \
    } while (0)
            ALIAS4("spmv_avx_4x12", Goldilocks::spmv_avx_4x12, (El *)(Mu + off));
            ALIAS4("spmv_avx_4x12_a", Goldilocks::spmv_avx_4x12_a, (El *)Ma);
            if (m8) ALIAS4("spmv_avx_4x12_8", Goldilocks::spmv_avx_4x12_8, (El *)(Mu + off));
            o_mmult_rows(e4, 4, sc, coef);
            ALIAS4("mmult_avx_4x12", Goldilocks::mmult_avx_4x12, (El *)(Mu + off));
            ALIAS4("mmult_avx_4x12_a", Goldilocks::mmult_avx_4x12_a, (El *)Ma);
            if (m8) ALIAS4("mmult_avx_4x12_8", Goldilocks::mmult_avx_4x12_8, (El *)(Mu + off));
            rep.cls("forms:result_register_is_state_register");
        }
        // mmult 4x12
        o_mmult_rows(e4, 4, sc, coef);
        CHK4("mmult_avx_4x12", Goldilocks::mmult_avx_4x12(c, a0, a1, a2, (El *)(Mu + off)));
        CHK4("mmult_avx_4x12_a", Goldilocks::mmult_avx_4x12_a(c, a0, a1, a2, (El *)Ma));
        if (m8) CHK4("mmult_avx_4x12_8", Goldilocks::mmult_avx_4x12_8(c, a0, a1, a2, (El *)(Mu + off)));
        // full 12x12
        o_mmult_rows(e12, 12, sc, coef);
#define CHK12(KN, CALL)                                                                                    \
    do                                                                                                     \
    {                                                                                                      \
        __m256i b0 = a0, b1 = a1, b2 = a2;                                                                 \
        CALL;                                                                                              \
        V4::store(g12, b0); V4::store(g12 + 4, b1); V4::store(g12 + 8, b2);                                \
        for (int i = 0; i < 12; i++) if (orc::canon(g12[i]) != e12[i]) mat_fail(rep, prop, std::string(KN) + sfx, MATFAM[fam], 0, i, g12[i], e12[i], s, 12, coef, 144); \
    } while (0)
        CHK12("mmult_avx", Goldilocks::mmult_avx(b0, b1, b2, (El *)(Mu + off)));
        CHK12("mmult_avx_a", Goldilocks::mmult_avx_a(b0, b1, b2, (El *)Ma));
        if (m8) CHK12("mmult_avx_8", Goldilocks::mmult_avx_8(b0, b1, b2, (El *)(Mu + off)));
        if (pass == 0 && t % 4 == 1)
        {
            // coefficient arrays of exactly the documented extent (12 / 48 / 144 elements) ending at an unmapped page (malloc redzone under ASan)
            const char *sfx = ":coefficients-of-exact-extent";
            auto with_exact = [&](size_t n, auto fn) {
#if defined(__SANITIZE_ADDRESS__)
                uint64_t *q = (uint64_t *)aligned_alloc(32, n * 8);
                memcpy(q, coef, n * 8);
                fn((El *)q);
                free(q);
#else
                static arena::GuardBuf<uint64_t> gb(256, true, 32);
                uint64_t *q = gb.p + gb.n - n;
                memcpy(q, coef, n * 8);
                fn((El *)q);
#endif
            };
            o_spmv(e4, sc, coef);
            with_exact(12, [&](El *m) {
                CHK4("spmv_avx_4x12", Goldilocks::spmv_avx_4x12(c, a0, a1, a2, m));
                CHK4("spmv_avx_4x12_a", Goldilocks::spmv_avx_4x12_a(c, a0, a1, a2, m));
                if (m8) CHK4("spmv_avx_4x12_8", Goldilocks::spmv_avx_4x12_8(c, a0, a1, a2, m));
                El d = Goldilocks::dot_avx(a0, a1, a2, m), d2 = Goldilocks::dot_avx_a(a0, a1, a2, m);
                uint64_t edot2 = o_dot(sc, coef);
                if (orc::canon(d.fe) != edot2) mat_fail(rep, prop, std::string("dot_avx") + sfx, MATFAM[fam], 0, 0, d.fe, edot2, s, 12, coef, 12);
                if (orc::canon(d2.fe) != edot2) mat_fail(rep, prop, std::string("dot_avx_a") + sfx, MATFAM[fam], 0, 0, d2.fe, edot2, s, 12, coef, 12);
            });
            o_mmult_rows(e4, 4, sc, coef);
            with_exact(48, [&](El *m) {
                CHK4("mmult_avx_4x12", Goldilocks::mmult_avx_4x12(c, a0, a1, a2, m));
                CHK4("mmult_avx_4x12_a", Goldilocks::mmult_avx_4x12_a(c, a0, a1, a2, m));
                if (m8) CHK4("mmult_avx_4x12_8", Goldilocks::mmult_avx_4x12_8(c, a0, a1, a2, m));
            });
            with_exact(144, [&](El *m) {
                CHK12("mmult_avx", Goldilocks::mmult_avx(b0, b1, b2, m));
                CHK12("mmult_avx_a", Goldilocks::mmult_avx_a(b0, b1, b2, m));
                if (m8) CHK12("mmult_avx_8", Goldilocks::mmult_avx_8(b0, b1, b2, m));
            });
            rep.cls("forms:coefficient_array_of_exact_extent");
        }
        } // pass
        rep.cls(std::string("matfam:") + MATFAM[fam] + (m8 ? ":8bit" : ":full"));
        rep.nontrivial(vf::mix64(s[0] ^ s[5], coef[0] ^ coef[13] ^ t));
    }
    // concurrent callers: 8 threads, own states and matrices, the full-matrix and dot kernels
    {
        const int T = 8;
        uint64_t nc = args.getu("concurrent", args.thorough() ? 400000ULL : 40000ULL) / args.nshards / T + 1;
        int bad[T];
        uint64_t seeds[T];
        for (int t = 0; t < T; t++) { bad[t] = 0; seeds[t] = vf::mix64(args.seed, 0x13CC + args.shard * 31 + t); }
        vf::team(T, [&](int me_) {
            int me = me_;
            Rng q(seeds[me]);
            MatGen lg;
            for (uint64_t t = 0; t < nc; t++)
            {
                uint64_t s[12], coef[144], sc[12], e12[12], g12[12];
                bool m8 = t & 1;
                lg.fill(q, (int)(t % 6), s, 12, coef, 144, m8, nullptr);
                for (int i = 0; i < 12; i++) sc[i] = orc::canon(s[i]);
                o_mmult_rows(e12, 12, sc, coef);
                __m256i b0 = V4::load(s), b1 = V4::load(s + 4), b2 = V4::load(s + 8);
                El d = Goldilocks::dot_avx(b0, b1, b2, (El *)coef);
                if (orc::canon(d.fe) != o_dot(sc, coef)) bad[me] = 1;
                if (m8) Goldilocks::mmult_avx_8(b0, b1, b2, (El *)coef); else Goldilocks::mmult_avx(b0, b1, b2, (El *)coef);
                V4::store(g12, b0); V4::store(g12 + 4, b1); V4::store(g12 + 8, b2);
                for (int i = 0; i < 12; i++) if (orc::canon(g12[i]) != e12[i]) bad[me] = m8 ? 3 : 2;
            }
        });
        static const char *KNM[] = {"", "dot_avx", "mmult_avx", "mmult_avx_8"};
        for (int t = 0; t < T; t++)
            if (bad[t]) rep.violation(std::string(prop) + ":" + KNM[bad[t]] + ":concurrent-callers:wrong-value", J().str("kernel", KNM[bad[t]]).str("what", "8 threads calling the kernels at the same time on their own operands").done());
        rep.evaluations += nc * T;
        rep.cls("family:concurrent_callers", nc * T);
    }
    rep.cls("kernels:avx2_matrix", 13);
}

#ifdef __AVX512__
static void run_mat8(const vf::Args &args, Report &rep)
{
    const char *prop = "C14";
    MatGen mg;
    Rng rng(vf::mix64(args.seed, 0x1400 + args.shard * 7727));
    uint64_t n = args.getu("trials", args.thorough() ? 30000000ULL : 400000ULL) / args.nshards;
    uint64_t &band = rep.counter("band:state_positions_with_product_in_[p,2^64)");
    uint64_t &probe_nc = rep.counter("band:probed_lane_products_noncanonical");
    uint64_t &probe_two = rep.counter("band:probed_two_or_more_noncanonical_addends_in_one_lane");
    uint64_t &bc_wrong = rep.counter("evidence:add_avx512_b_c_would_be_wrong_on_noncanonical_addend");
    for (uint64_t t = 0; t < n; t++)
    {
        int fam = (int)(t % 7);
        uint64_t s[24]; // two states: s[0..11], s[12..23]
        uint64_t coef[144];
        bool m8 = (t / 7) % 2 == 1;
        mg.fill(rng, fam, s, 24, coef, 144, m8, &band);
        if ((t / 12) % 4 == 3) memcpy(s + 12, s, 12 * 8); // identical states
        if ((t / 12) % 4 == 2) for (int i = 0; i < 12; i++) s[12 + i] = rng.next(); // one directed, one random
        uint64_t sc[2][12];
        for (int st = 0; st < 2; st++) for (int i = 0; i < 12; i++) sc[st][i] = orc::canon(s[12 * st + i]);
        // interleaved layout: register j lanes 0-3 = state1[4j..4j+3], lanes 4-7 = state2[4j..4j+3]
        uint64_t il[24];
        for (int j = 0; j < 3; j++) for (int i = 0; i < 4; i++) { il[8 * j + i] = s[4 * j + i]; il[8 * j + 4 + i] = s[12 + 4 * j + i]; }
        __m512i a0 = V8::load(il), a1 = V8::load(il + 8), a2 = V8::load(il + 16);
        rep.evaluations++;
        if (t < 10) rep.sample(MATFAM[fam], J().raw("state1", vf::jarr_hex(s, 12)).raw("state2", vf::jarr_hex(s + 12, 12)).raw("coef_first_row", vf::jarr_hex(coef, 12)).b("eight_bit", m8).done());
        {
            uint64_t o[3][8];
            for (int j = 0; j < 3; j++)
            {
                __m512i bj = _mm512_set4_epi64(coef[4 * j + 3], coef[4 * j + 2], coef[4 * j + 1], coef[4 * j]);
                __m512i pr;
                Goldilocks::mult_avx512(pr, j == 0 ? a0 : (j == 1 ? a1 : a2), bj);
                V8::store(o[j], pr);
            }
            for (int i = 0; i < 8; i++)
            {
                int nc = 0;
                for (int j = 0; j < 3; j++) if (o[j][i] >= PP) { nc++; probe_nc++; }
                if (nc >= 2) probe_two++;
                // evidence for finding F1: would the canonical-addend shortcut have been wrong here?
                if (o[1][i] >= PP)
                {
                    uint64_t c0 = o[0][i] + o[1][i];
                    uint64_t c = (o[0][i] > c0) ? c0 + 0xFFFFFFFFULL : c0;
                    if (orc::canon(c) != orc::add(o[0][i], o[1][i])) bc_wrong++;
                }
            }
        }
        // second pass (every third trial): the matrix at the same addresses with the same leading coefficients and other entries changed
        for (int pass = 0; pass < (t % 3 == 0 ? 2 : 1); pass++)
        {
        const char *sfx = pass ? ":changed-matrix-at-the-same-address" : "";
        if (pass)
        {
            for (int i = 4; i < 144; i++)
                if (i >= 12 ? rng.coin() : rng.below(4) == 0) coef[i] = m8 ? rng.below(256) : (rng.coin() ? rng.next() : rng.next() >> 32);
            rep.cls("forms:changed_matrix_at_the_same_address");
        }
        uint64_t e[2][12], got[8], g24[24];
        __m512i c;
        for (int st = 0; st < 2; st++) o_spmv(e[st], sc[st], coef);
#define CHK8(KN, CALL, NCO)                                                                                \
    do                                                                                                     \
    {                                                                                                      \
        CALL;                                                                                              \
        V8::store(got, c);                                                                                 \
        for (int st = 0; st < 2; st++) for (int i = 0; i < 4; i++)                                         \
            if (orc::canon(got[4 * st + i]) != e[st][i]) mat_fail(rep, prop, std::string(KN) + sfx, MATFAM[fam], st, i, got[4 * st + i], e[st][i], s + 12 * st, 12, coef, NCO); \
    } while (0)
        CHK8("spmv_avx512_4x12", Goldilocks::spmv_avx512_4x12(c, a0, a1, a2, (El *)coef), 12);
        if (m8) CHK8("spmv_avx512_4x12_8", Goldilocks::spmv_avx512_4x12_8(c, a0, a1, a2, (El *)coef), 12);
        {
            El d[2];
            Goldilocks::dot_avx512(d, a0, a1, a2, (El *)coef);
            for (int st = 0; st < 2; st++)
            {
                uint64_t ed = o_dot(sc[st], coef);
                if (orc::canon(d[st].fe) != ed) mat_fail(rep, prop, std::string("dot_avx512") + sfx, MATFAM[fam], st, 0, d[st].fe, ed, s + 12 * st, 12, coef, 12);
            }
        }
        {
            int al = (int)(t % 3);
#define ALIAS8(KN, FN, NCO)                                                                                 \
    do                                                                                                     \
    {                                                                                                      \
        __m512i x0 = a0, x1 = a1, x2 = a2;                                                                 \
        if (al == 0) { FN(x0, x0, x1, x2, (El *)coef); c = x0; } else if (al == 1) { FN(x1, x0, x1, x2, (El *)coef); c = x1; } else { FN(x2, x0, x1, x2, (El *)coef); c = x2; } \
        V8::store(got, c);                                                                                 \
        for (int st = 0; st < 2; st++) for (int i = 0; i < 4; i++)                                         \
            if (orc::canon(got[4 * st + i]) != e[st][i]) mat_fail(rep, prop, std::string(KN ":result-is-a-state-register") + sfx, MATFAM[fam], st, i, got[4 * st + i], e[st][i], s + 12 * st, 12, coef, NCO); \
    } while (0)
            ALIAS8("spmv_avx512_4x12", Goldilocks::spmv_avx512_4x12, 12);
            if (m8) ALIAS8("spmv_avx512_4x12_8", Goldilocks::spmv_avx512_4x12_8, 12);
            for (int st = 0; st < 2; st++) o_mmult_rows(e[st], 4, sc[st], coef);
            ALIAS8("mmult_avx512_4x12", Goldilocks::mmult_avx512_4x12, 48);
            if (m8) ALIAS8("mmult_avx512_4x12_8", Goldilocks::mmult_avx512_4x12_8, 48);
            rep.cls("forms:result_register_is_state_register");
        }
        for (int st = 0; st < 2; st++) o_mmult_rows(e[st], 4, sc[st], coef);
        CHK8("mmult_avx512_4x12", Goldilocks::mmult_avx512_4x12(c, a0, a1, a2, (El *)coef), 48);
        if (m8) CHK8("mmult_avx512_4x12_8", Goldilocks::mmult_avx512_4x12_8(c, a0, a1, a2, (El *)coef), 48);
        for (int st = 0; st < 2; st++) o_mmult_rows(e[st], 12, sc[st], coef);
#define CHK24(KN, CALL)                                                                                    \
    do                                                                                                     \
    {                                                                                                      \
        __m512i b0 = a0, b1 = a1, b2 = a2;                                                                 \
        CALL;                                                                                              \
        V8::store(g24, b0); V8::store(g24 + 8, b1); V8::store(g24 + 16, b2);                               \
        for (int st = 0; st < 2; st++) for (int j = 0; j < 3; j++) for (int i = 0; i < 4; i++)             \
        {                                                                                                  \
            uint64_t gv = g24[8 * j + 4 * st + i];                                                         \
            if (orc::canon(gv) != e[st][4 * j + i]) mat_fail(rep, prop, std::string(KN) + sfx, MATFAM[fam], st, 4 * j + i, gv, e[st][4 * j + i], s + 12 * st, 12, coef, 144); \
        }                                                                                                  \
    } while (0)
        CHK24("mmult_avx512", Goldilocks::mmult_avx512(b0, b1, b2, (El *)coef));
        if (m8) CHK24("mmult_avx512_8", Goldilocks::mmult_avx512_8(b0, b1, b2, (El *)coef));
        if (pass == 0 && t % 4 == 1)
        {
            const char *sfx = ":coefficients-of-exact-extent";
            auto with_exact = [&](size_t n, auto fn) {
#if defined(__SANITIZE_ADDRESS__)
                uint64_t *q = (uint64_t *)aligned_alloc(32, n * 8);
                memcpy(q, coef, n * 8);
                fn((El *)q);
                free(q);
#else
                static arena::GuardBuf<uint64_t> gb(256, true, 32);
                uint64_t *q = gb.p + gb.n - n;
                memcpy(q, coef, n * 8);
                fn((El *)q);
#endif
            };
            for (int st = 0; st < 2; st++) o_spmv(e[st], sc[st], coef);
            with_exact(12, [&](El *m) {
                CHK8("spmv_avx512_4x12", Goldilocks::spmv_avx512_4x12(c, a0, a1, a2, m), 12);
                if (m8) CHK8("spmv_avx512_4x12_8", Goldilocks::spmv_avx512_4x12_8(c, a0, a1, a2, m), 12);
                El d[2];
                Goldilocks::dot_avx512(d, a0, a1, a2, m);
                for (int st = 0; st < 2; st++)
                {
                    uint64_t ed = o_dot(sc[st], coef);
                    if (orc::canon(d[st].fe) != ed) mat_fail(rep, prop, std::string("dot_avx512") + sfx, MATFAM[fam], st, 0, d[st].fe, ed, s + 12 * st, 12, coef, 12);
                }
            });
            for (int st = 0; st < 2; st++) o_mmult_rows(e[st], 4, sc[st], coef);
            with_exact(48, [&](El *m) {
                CHK8("mmult_avx512_4x12", Goldilocks::mmult_avx512_4x12(c, a0, a1, a2, m), 48);
                if (m8) CHK8("mmult_avx512_4x12_8", Goldilocks::mmult_avx512_4x12_8(c, a0, a1, a2, m), 48);
            });
            for (int st = 0; st < 2; st++) o_mmult_rows(e[st], 12, sc[st], coef);
            with_exact(144, [&](El *m) {
                CHK24("mmult_avx512", Goldilocks::mmult_avx512(b0, b1, b2, m));
                if (m8) CHK24("mmult_avx512_8", Goldilocks::mmult_avx512_8(b0, b1, b2, m));
            });
            rep.cls("forms:coefficient_array_of_exact_extent");
        }
        } // pass
        rep.cls(std::string("matfam:") + MATFAM[fam] + (m8 ? ":8bit" : ":full"));
        rep.nontrivial(vf::mix64(s[0] ^ s[17], coef[0] ^ coef[13] ^ t));
    }
    {
        const int T = 8;
        uint64_t nc = args.getu("concurrent", args.thorough() ? 400000ULL : 40000ULL) / args.nshards / T + 1;
        int bad[T];
        uint64_t seeds[T];
        for (int t = 0; t < T; t++) { bad[t] = 0; seeds[t] = vf::mix64(args.seed, 0x14CC + args.shard * 31 + t); }
        vf::team(T, [&](int me_) {
            int me = me_;
            Rng q(seeds[me]);
            MatGen lg;
            for (uint64_t t = 0; t < nc; t++)
            {
                uint64_t s[24], coef[144], sc[2][12], e[2][12], il[24], g24[24];
                bool m8 = t & 1;
                lg.fill(q, (int)(t % 6), s, 24, coef, 144, m8, nullptr);
                for (int st = 0; st < 2; st++) { for (int i = 0; i < 12; i++) sc[st][i] = orc::canon(s[12 * st + i]); o_mmult_rows(e[st], 12, sc[st], coef); }
                for (int j = 0; j < 3; j++) for (int i = 0; i < 4; i++) { il[8 * j + i] = s[4 * j + i]; il[8 * j + 4 + i] = s[12 + 4 * j + i]; }
                __m512i b0 = V8::load(il), b1 = V8::load(il + 8), b2 = V8::load(il + 16);
                El d[2];
                Goldilocks::dot_avx512(d, b0, b1, b2, (El *)coef);
                for (int st = 0; st < 2; st++) if (orc::canon(d[st].fe) != o_dot(sc[st], coef)) bad[me] = 1;
                if (m8) Goldilocks::mmult_avx512_8(b0, b1, b2, (El *)coef); else Goldilocks::mmult_avx512(b0, b1, b2, (El *)coef);
                V8::store(g24, b0); V8::store(g24 + 8, b1); V8::store(g24 + 16, b2);
                for (int st = 0; st < 2; st++) for (int j = 0; j < 3; j++) for (int i = 0; i < 4; i++)
                    if (orc::canon(g24[8 * j + 4 * st + i]) != e[st][4 * j + i]) bad[me] = m8 ? 3 : 2;
            }
        });
        static const char *KNM[] = {"", "dot_avx512", "mmult_avx512", "mmult_avx512_8"};
        for (int t = 0; t < T; t++)
            if (bad[t]) rep.violation(std::string(prop) + ":" + KNM[bad[t]] + ":concurrent-callers:wrong-value", J().str("kernel", KNM[bad[t]]).str("what", "8 threads calling the kernels at the same time on their own operands").done());
        rep.evaluations += nc * T;
        rep.cls("family:concurrent_callers", nc * T);
    }
    rep.cls("kernels:avx512_matrix", 7);
}
#endif

// load/store/set helpers: part of the lane API the kernels are reached through
static void run_loadstore(Report &rep)
{
    alignas(64) uint64_t buf[24];
    for (int i = 0; i < 24; i++) buf[i] = 0x1111111111111111ULL * (i + 1);
    for (int off = 0; off < 4; off++)
    {
        __m256i r;
        Goldilocks::load_avx(r, (El *)(buf + off));
        uint64_t o[4];
        Goldilocks::store_avx((El *)o, r);
        if (memcmp(o, buf + off, 32)) rep.violation("C02:load_store_avx:roundtrip", J().i("offset", off).done());
        rep.evaluations++;
    }
    {
        __m256i r, r2;
        Goldilocks::load_avx_a(r, (El *)buf);
        alignas(32) uint64_t o[4];
        Goldilocks::store_avx_a((El *)o, r);
        if (memcmp(o, buf, 32)) rep.violation("C02:load_store_avx_a:roundtrip", J().done());
        Goldilocks::set_avx(r2, El{1}, El{2}, El{3}, El{4});
        Goldilocks::store_avx((El *)o, r2);
        if (o[0] != 1 || o[1] != 2 || o[2] != 3 || o[3] != 4) rep.violation("C02:set_avx:lane-order", J().raw("got", vf::jarr_hex(o, 4)).done());
        Goldilocks::shift_avx(r2, r);
        Goldilocks::store_avx((El *)o, r2);
        for (int i = 0; i < 4; i++) if (o[i] != (buf[i] ^ MSBV)) rep.violation("C02:shift_avx:wrong", J().done());
        rep.cls("lane:load_store_set_shift_checked");
    }
#ifdef __AVX512__
    for (int off = 0; off < 8; off++)
    {
        __m512i r;
        Goldilocks::load_avx512(r, (El *)(buf + off));
        uint64_t o[8];
        Goldilocks::store_avx512((El *)o, r);
        if (memcmp(o, buf + off, 64)) rep.violation("C11:load_store_avx512:roundtrip", J().i("offset", off).done());
    }
    {
        __m512i r;
        Goldilocks::load_avx512_a(r, (El *)buf);
        alignas(64) uint64_t o[8];
        Goldilocks::store_avx512_a((El *)o, r);
        if (memcmp(o, buf, 64)) rep.violation("C11:load_store_avx512_a:roundtrip", J().done());
        rep.cls("lane:load_store_512_checked");
    }
#endif
}

int main(int argc, char **argv)
{
    vf::Args args = vf::parse_args(argc, argv);
    Report rep;
    rep.open(args.prop, args.out);
    if (args.prop == "C02") { run_loadstore(rep); run_lanes<V4>(args, rep, kernels4(), "C02"); }
    else if (args.prop == "C13") run_mat4(args, rep);
#ifdef __AVX512__
    else if (args.prop == "C11") { run_loadstore(rep); run_lanes<V8>(args, rep, kernels8(), "C11"); }
    else if (args.prop == "C14") run_mat8(args, rep);
#endif
    else { fprintf(stderr, "unknown or unavailable --prop %s\n", args.prop.c_str()); return 3; }
    rep.finish();
    return 0;
}
