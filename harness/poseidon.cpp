// C06 (Poseidon permutation: scalar / AVX2 / AVX-512 vs reference), C07 (linear_hash = rate-8 capacity-4 sponge,
// exact read/write extents), C08 (Merkle tree buffer and root, all builders).  Also workload for C12 / C18.
#include "goldilocks_base_field.hpp"
#include "poseidon_goldilocks.hpp"
#include "merklehash_goldilocks.hpp"
#include "harness.hpp"
#include "oracle.hpp"
#include "gen.hpp"
#include "arena.hpp"
#include "pins.hpp"
#include <memory>

using vf::J;
using vf::Report;
using vf::Rng;
typedef Goldilocks::Element El;
typedef unsigned __int128 u128;
static const uint64_t PP = 0xFFFFFFFF00000001ULL;
namespace PC = PoseidonGoldilocksConstants;

extern "C" void verif_omp_set_mode(int mode, uint64_t perm_seed, int force_team) __attribute__((weak));
extern "C" void verif_omp_stats(uint64_t out[5]) __attribute__((weak));

// the flattened (transposed) copies M_ / P_ are an implementation detail of the vector code: when the tree has them they are checked
// against the row forms; when a tree does not have them the same values are derived from M and P (build passes VERIF_HAVE_FLAT_TABLES=0)
#ifndef VERIF_HAVE_FLAT_TABLES
#define VERIF_HAVE_FLAT_TABLES 1
#endif
static inline uint64_t flatM(int i)
{
#if VERIF_HAVE_FLAT_TABLES
    return PC::M_[i].fe;
#else
    return PC::M[i % 12][i / 12].fe;
#endif
}
static inline uint64_t flatP(int i)
{
#if VERIF_HAVE_FLAT_TABLES
    return PC::P_[i].fe;
#else
    return PC::P[i % 12][i / 12].fe;
#endif
}

// ------------------------------------------------------------------ reference permutation (spec form, oracle arithmetic)
struct Ref
{
    uint64_t C[118], S[507], M[12][12], Pm[12][12];
    uint64_t Minv[12][12]; // inverse of the linear layer x -> (sum_j M[j][i] x_j)_i
    uint64_t Pinv[12][12]; // the same for the P layer
    uint64_t Sden[22];     // partial round r: 1 / (S0 - sum_k w_k v_k)
    uint64_t root7;        // exponent e with x^(7e) = x
    bool m_small = true;   // every MDS entry below 2^16 (then the fast arithmetic may accumulate a row before reducing)
    Ref()
    {
        for (int i = 0; i < 118; i++) C[i] = orc::canon(PC::C[i].fe);
        for (int i = 0; i < 507; i++) S[i] = orc::canon(PC::S[i].fe);
        for (int i = 0; i < 12; i++)
            for (int j = 0; j < 12; j++) { M[i][j] = orc::canon(PC::M[i][j].fe); Pm[i][j] = orc::canon(PC::P[i][j].fe); }
        // 7^-1 mod (p-1)
        {
            u128 m = (u128)PP - 1;
            for (u128 k = 1; k < 8; k++) if ((k * m + 1) % 7 == 0) { root7 = (uint64_t)((k * m + 1) / 7); break; }
        }
        for (int i = 0; i < 12; i++) for (int j = 0; j < 12; j++) if (M[i][j] >= 65536) m_small = false;
        invert();
    }
    static void lin(uint64_t st[12], const uint64_t mat[12][12])
    {
        uint64_t o[12];
        for (int i = 0; i < 12; i++)
        {
            uint64_t acc = 0;
            for (int j = 0; j < 12; j++) acc = orc::add(acc, orc::mul(mat[j][i], st[j]));
            o[i] = acc;
        }
        memcpy(st, o, sizeof o);
    }
    static inline uint64_t p7(uint64_t x) { uint64_t x2 = orc::mul(x, x), x4 = orc::mul(x2, x2); return orc::mul(orc::mul(x4, x2), x); }
    // stages: 0..2 first full rounds, 3 the round whose linear layer is P, 4..25 partial rounds, 26..28 full rounds, 29 last round.
    // cap_stage: copy the vector that enters the linear step of that stage into cap
    void permute(uint64_t out[12], const uint64_t in[12], int cap_stage = -1, uint64_t *cap = nullptr) const
    {
        uint64_t st[12];
        for (int i = 0; i < 12; i++) st[i] = orc::add(orc::canon(in[i]), C[i]);
        for (int r = 0; r < 3; r++)
        {
            for (int i = 0; i < 12; i++) st[i] = orc::add(p7(st[i]), C[(r + 1) * 12 + i]);
            if (cap_stage == r) memcpy(cap, st, sizeof st);
            lin(st, M);
        }
        for (int i = 0; i < 12; i++) st[i] = orc::add(p7(st[i]), C[4 * 12 + i]);
        if (cap_stage == 3) memcpy(cap, st, sizeof st);
        lin(st, Pm);
        for (int r = 0; r < 22; r++)
        {
            st[0] = orc::add(p7(st[0]), C[5 * 12 + r]);
            if (cap_stage == 4 + r) memcpy(cap, st, sizeof st);
            uint64_t s0 = 0;
            for (int j = 0; j < 12; j++) s0 = orc::add(s0, orc::mul(S[23 * r + j], st[j]));
            for (int k = 1; k < 12; k++) st[k] = orc::add(st[k], orc::mul(st[0], S[23 * r + 12 + k - 1]));
            st[0] = s0;
        }
        for (int r = 0; r < 3; r++)
        {
            for (int i = 0; i < 12; i++) st[i] = orc::add(p7(st[i]), C[5 * 12 + 22 + r * 12 + i]);
            if (cap_stage == 26 + r) memcpy(cap, st, sizeof st);
            lin(st, M);
        }
        for (int i = 0; i < 12; i++) st[i] = p7(st[i]);
        if (cap_stage == 29) memcpy(cap, st, sizeof st);
        lin(st, M);
        memcpy(out, st, sizeof st);
    }
    // a second, faster arithmetic for very long sponge inputs (2^64 = 2^32-1, 2^96 = -1 mod p, plain C); cross-checked against the
    // u128 % oracle on random and boundary states at start-up (selfcheck_fast)
    static inline uint64_t fadd(uint64_t a, uint64_t b) { uint64_t s = a + b; if (s < a) s += 0xFFFFFFFFULL; return s >= PP ? s - PP : s; } // a, b canonical
    static inline uint64_t fmul(uint64_t a, uint64_t b)
    {
        u128 x = (u128)a * b;
        uint64_t lo = (uint64_t)x, hi = (uint64_t)(x >> 64), hh = hi >> 32, hl = hi & 0xFFFFFFFFULL;
        uint64_t t = lo - hh;
        if (lo < hh) t -= 0xFFFFFFFFULL;
        uint64_t m = hl * 0xFFFFFFFFULL;
        uint64_t r = t + m;
        if (r < m) r += 0xFFFFFFFFULL;
        return r >= PP ? r - PP : r;
    }
    static void lin_fast(uint64_t st[12], const uint64_t mat[12][12])
    {
        uint64_t o[12];
        for (int i = 0; i < 12; i++)
        {
            uint64_t acc = 0;
            for (int j = 0; j < 12; j++) acc = fadd(acc, fmul(mat[j][i], st[j]));
            o[i] = acc;
        }
        memcpy(st, o, sizeof o);
    }
    // MDS layer: the entries are below 2^8, so twelve products fit a 128-bit accumulator and are reduced once
    static void lin_fast_small(uint64_t st[12], const uint64_t mat[12][12])
    {
        uint64_t o[12];
        for (int i = 0; i < 12; i++)
        {
            u128 acc = 0;
            for (int j = 0; j < 12; j++) acc += (u128)mat[j][i] * st[j];
            // acc < 2^80: acc = lo + hi*2^64 with hi < 2^16, 2^64 = 2^32-1 (mod p)
            uint64_t lo = (uint64_t)acc, hi = (uint64_t)(acc >> 64);
            o[i] = fadd(lo >= PP ? lo - PP : lo, hi * 0xFFFFFFFFULL);
        }
        memcpy(st, o, sizeof o);
    }
    static inline uint64_t p7_fast(uint64_t x) { uint64_t x2 = fmul(x, x), x4 = fmul(x2, x2); return fmul(fmul(x4, x2), x); }
    void permute_fast(uint64_t out[12], const uint64_t in[12], int cap_stage = -1, uint64_t *cap = nullptr) const
    {
        uint64_t st[12];
        for (int i = 0; i < 12; i++) st[i] = fadd(orc::canon(in[i]), C[i]);
        for (int r = 0; r < 3; r++)
        {
            for (int i = 0; i < 12; i++) st[i] = fadd(p7_fast(st[i]), C[(r + 1) * 12 + i]);
            if (cap_stage == r) memcpy(cap, st, sizeof st);
            if (m_small) lin_fast_small(st, M); else lin_fast(st, M);
        }
        for (int i = 0; i < 12; i++) st[i] = fadd(p7_fast(st[i]), C[4 * 12 + i]);
        if (cap_stage == 3) memcpy(cap, st, sizeof st);
        lin_fast(st, Pm);
        for (int r = 0; r < 22; r++)
        {
            st[0] = fadd(p7_fast(st[0]), C[5 * 12 + r]);
            if (cap_stage == 4 + r) memcpy(cap, st, sizeof st);
            uint64_t s0 = 0;
            for (int j = 0; j < 12; j++) s0 = fadd(s0, fmul(S[23 * r + j], st[j]));
            for (int k = 1; k < 12; k++) st[k] = fadd(st[k], fmul(st[0], S[23 * r + 12 + k - 1]));
            st[0] = s0;
        }
        for (int r = 0; r < 3; r++)
        {
            for (int i = 0; i < 12; i++) st[i] = fadd(p7_fast(st[i]), C[5 * 12 + 22 + r * 12 + i]);
            if (cap_stage == 26 + r) memcpy(cap, st, sizeof st);
            if (m_small) lin_fast_small(st, M); else lin_fast(st, M);
        }
        for (int i = 0; i < 12; i++) st[i] = p7_fast(st[i]);
        if (cap_stage == 29) memcpy(cap, st, sizeof st);
        if (m_small) lin_fast_small(st, M); else lin_fast(st, M);
        memcpy(out, st, sizeof st);
    }
    void invert()
    {
        invert_mat(M, Minv);
        invert_mat(Pm, Pinv);
        for (int r = 0; r < 22; r++)
        {
            uint64_t d = S[23 * r];
            for (int k = 1; k < 12; k++) d = orc::sub(d, orc::mul(S[23 * r + k], S[23 * r + 11 + k]));
            if (d == 0) { fprintf(stderr, "partial round %d not invertible?\n", r); abort(); }
            Sden[r] = orc::inv(d);
        }
    }
    static void apply_inv(uint64_t v[12], const uint64_t inv[12][12])
    {
        uint64_t o[12];
        for (int i = 0; i < 12; i++)
        {
            uint64_t acc = 0;
            for (int j = 0; j < 12; j++) acc = orc::add(acc, orc::mul(inv[i][j], v[j]));
            o[i] = acc;
        }
        memcpy(v, o, sizeof o);
    }
    // input state such that the vector entering the linear step of `stage` (numbering of permute) equals T
    void solve_stage(uint64_t in[12], const uint64_t T[12], int stage) const
    {
        uint64_t v[12];
        for (int i = 0; i < 12; i++) v[i] = orc::canon(T[i]);
        for (int k = stage; k >= 0; k--)
        {
            // undo the non-linear step of stage k
            if (k <= 3) for (int i = 0; i < 12; i++) v[i] = orc::pw(orc::sub(v[i], C[(k + 1) * 12 + i]), root7);
            else if (k <= 25) v[0] = orc::pw(orc::sub(v[0], C[60 + (k - 4)]), root7);
            else if (k <= 28) for (int i = 0; i < 12; i++) v[i] = orc::pw(orc::sub(v[i], C[82 + (k - 26) * 12 + i]), root7);
            else for (int i = 0; i < 12; i++) v[i] = orc::pw(v[i], root7);
            if (k == 0) break;
            // undo the linear step of stage k-1
            int q = k - 1;
            if (q <= 2 || q >= 26) apply_inv(v, Minv);
            else if (q == 3) apply_inv(v, Pinv);
            else
            {
                int r = q - 4;
                uint64_t acc = v[0];
                for (int j = 1; j < 12; j++) acc = orc::sub(acc, orc::mul(S[23 * r + j], v[j]));
                uint64_t x0 = orc::mul(acc, Sden[r]);
                for (int j = 1; j < 12; j++) v[j] = orc::sub(v[j], orc::mul(x0, S[23 * r + 11 + j]));
                v[0] = x0;
            }
        }
        for (int i = 0; i < 12; i++) in[i] = orc::sub(v[i], C[i]);
    }
    static void invert_mat(const uint64_t Mx[12][12], uint64_t out[12][12])
    {
        // A[i][j] = M[j][i]; Gauss-Jordan mod p
        uint64_t a[12][24];
        for (int i = 0; i < 12; i++)
            for (int j = 0; j < 12; j++) { a[i][j] = Mx[j][i]; a[i][12 + j] = i == j; }
        for (int c = 0; c < 12; c++)
        {
            int pv = -1;
            for (int r = c; r < 12; r++) if (a[r][c]) { pv = r; break; }
            if (pv < 0) { fprintf(stderr, "MDS matrix singular?\n"); abort(); }
            if (pv != c) for (int k = 0; k < 24; k++) std::swap(a[pv][k], a[c][k]);
            uint64_t iv = orc::inv(a[c][c]);
            for (int k = 0; k < 24; k++) a[c][k] = orc::mul(a[c][k], iv);
            for (int r = 0; r < 12; r++)
                if (r != c && a[r][c])
                {
                    uint64_t f = a[r][c];
                    for (int k = 0; k < 24; k++) a[r][k] = orc::sub(a[r][k], orc::mul(f, a[c][k]));
                }
        }
        for (int i = 0; i < 12; i++) for (int j = 0; j < 12; j++) out[i][j] = a[i][12 + j];
    }
    // input state such that the vector entering the linear layer of full round `depth` (0..2) equals T
    void solve_input(uint64_t in[12], const uint64_t T[12], int depth) const
    {
        uint64_t v[12];
        for (int i = 0; i < 12; i++) v[i] = orc::canon(T[i]);
        for (int r = depth; r >= 0; r--)
        {
            // v = p7(x) + C[(r+1)*12+i]  ->  x = (v - C)^(1/7)
            for (int i = 0; i < 12; i++) v[i] = orc::pw(orc::sub(v[i], C[(r + 1) * 12 + i]), root7);
            if (r > 0)
            {
                // x = lin(prev)  ->  prev = Minv * x  (row form: prev_i = sum_j Minv[i][j] x_j)
                uint64_t o[12];
                for (int i = 0; i < 12; i++)
                {
                    uint64_t acc = 0;
                    for (int j = 0; j < 12; j++) acc = orc::add(acc, orc::mul(Minv[i][j], v[j]));
                    o[i] = acc;
                }
                memcpy(v, o, sizeof o);
            }
        }
        for (int i = 0; i < 12; i++) in[i] = orc::sub(v[i], C[i]);
    }
    // sponge
    void sponge(uint64_t out[4], const uint64_t *in, uint64_t size) const
    {
        if (size <= 4)
        {
            for (uint64_t i = 0; i < 4; i++) out[i] = i < size ? in[i] : 0; // returned unchanged (bit identical) and zero padded
            return;
        }
        uint64_t st[12] = {0};
        uint64_t cap[4] = {0, 0, 0, 0};
        for (uint64_t pos = 0; pos < size; pos += 8)
        {
            uint64_t blk[12];
            for (int i = 0; i < 8; i++) blk[i] = pos + i < size ? in[pos + i] : 0;
            for (int i = 0; i < 4; i++) blk[8 + i] = cap[i];
            if (size > 100000) permute_fast(st, blk); else permute(st, blk);
            for (int i = 0; i < 4; i++) cap[i] = st[i];
        }
        for (int i = 0; i < 4; i++) out[i] = st[i];
    }
};

static uint64_t table_hash()
{
    uint64_t h = 0xcbf29ce484222325ULL;
    auto f = [&](uint64_t v) { h = vf::mix64(h, v); };
    for (int i = 0; i < 118; i++) f(PC::C[i].fe);
    for (int i = 0; i < 507; i++) f(PC::S[i].fe);
    for (int i = 0; i < 12; i++) for (int j = 0; j < 12; j++) { f(PC::M[i][j].fe); f(PC::P[i][j].fe); }
    for (int i = 0; i < 144; i++) { f(flatM(i)); f(flatP(i)); }
    return h;
}
#ifndef VERIF_POSEIDON_TABLE_HASH
#define VERIF_POSEIDON_TABLE_HASH 0ULL
#endif

// constant-table monitor + known-answer self-check of the oracle
static void check_tables(Report &rep, const Ref &ref, const char *prop)
{
    rep.evaluations++;
    for (int i = 0; i < 12; i++)
        for (int j = 0; j < 12; j++)
        {
#if VERIF_HAVE_FLAT_TABLES
            if (PC::M_[12 * i + j].fe != PC::M[j][i].fe) rep.violation(std::string(prop) + ":tables:M_-layout", J().i("i", i).i("j", j).done());
            if (PC::P_[12 * i + j].fe != PC::P[j][i].fe) rep.violation(std::string(prop) + ":tables:P_-layout", J().i("i", i).i("j", j).done());
            if (PC::M_[12 * i + j].fe >= 256) rep.violation(std::string(prop) + ":tables:M_-not-8bit", J().i("i", i).i("j", j).done());
#else
            if (PC::M[j][i].fe >= 256) rep.violation(std::string(prop) + ":tables:M-not-8bit", J().i("i", i).i("j", j).done());
#endif
        }
    for (int i = 0; i < 118; i++)
        if (PC::C[i].fe > 0xFFFFFFFF00000000ULL) rep.violation(std::string(prop) + ":tables:C-not-canonical", J().i("i", i).done());
    uint64_t h = table_hash();
    if (VERIF_POSEIDON_TABLE_HASH != 0ULL && h != VERIF_POSEIDON_TABLE_HASH)
        rep.violation(std::string(prop) + ":tables:constant-tables-differ-from-pinned-hash", J().h("got", h).h("pinned", VERIF_POSEIDON_TABLE_HASH).done());
    rep.cls(VERIF_POSEIDON_TABLE_HASH != 0ULL ? "tables:pinned_hash_checked" : "tables:hash_not_pinned");
    rep.note("info", J().str("poseidon_table_hash", vf::hex64(h)).done());
    // published known answers (hash of zeros / of the Fibonacci state): the oracle itself must reproduce them
    static const uint64_t KZ[12] = {0X3C18A9786CB0B359, 0XC4055E3364A246C3, 0X7953DB0AB48808F4, 0XC71603F33A1144CA, 0XD7709673896996DC, 0X46A84E87642F44ED, 0XD032648251EE0B3C, 0X1C687363B207DF62, 0XDF8565563E8045FE, 0X40F5B37FF4254DAE, 0XD070F637B431067C, 0X1792B1C4342109D7};
    static const uint64_t KF[12] = {0X3095570037F4605D, 0X3D561B5EF1BC8B58, 0X8129DB5EC75C3226, 0X8EC2B67AFB6B87ED, 0XFC591F17D0FAB161, 0X1D2B045CC2FEA1AD, 0X8A4E3B0CB12D4527, 0XFF217A756AE2211, 0X78F6E79CFC407293, 0X3DE827E086AE61C9, 0X921456F6D2D11E27, 0XF58A41D4028C66A5};
    uint64_t z[12] = {0}, fb[12], o[12];
    fb[0] = 0; fb[1] = 1;
    for (int i = 2; i < 12; i++) fb[i] = fb[i - 1] + fb[i - 2];
    ref.permute(o, z);
    if (memcmp(o, KZ, sizeof o)) rep.violation(std::string(prop) + ":oracle:known-answer-zero-state", J().raw("got", vf::jarr_hex(o, 12)).done());
    ref.permute(o, fb);
    if (memcmp(o, KF, sizeof o)) rep.violation(std::string(prop) + ":oracle:known-answer-fibonacci-state", J().raw("got", vf::jarr_hex(o, 12)).done());
    rep.cls("oracle:known_answers_checked", 2);
}

// ================================================================================== C06
struct StateGen
{
    gen::G64 g;
    const Ref &ref;
    int selfchecks = 0;
    StateGen(const Ref &r) : ref(r) {}
    // returns family name
    const char *make(Rng &r, uint64_t st[12], uint64_t idx)
    {
        int fam = (int)(idx % 8);
        switch (fam)
        {
        case 0:
            for (int i = 0; i < 12; i++) st[i] = r.next();
            return "uniform";
        case 1:
            for (int i = 0; i < 12; i++) st[i] = g.fixed[r.below(g.fixed.size())];
            return "all_boundary";
        case 2:
        {
            int hot = (int)((idx / 8) % 12);
            for (int i = 0; i < 12; i++) st[i] = r.below(3) == 0 ? 0 : r.below(4);
            st[hot] = g.fixed[r.below(g.fixed.size())];
            return "single_hot_boundary";
        }
        case 3:
            for (int i = 0; i < 12; i++) st[i] = g.pick(r);
            return "mixed_g64";
        case 6:
        case 7:
        {
            // inverse-constructed through the whole permutation: choose the vector T that enters the linear step of stage 3..29
            // (P layer, every partial round, the second half of full rounds). Targets are chosen relative to the coefficients that
            // multiply them there: the PRODUCT coefficient*T[j] is what lands on a boundary (tiny residues, residues next to p, 0, ...)
            int stage = 3 + (int)((idx / 8) % 27);
            uint64_t T[12];
            int style = (int)r.below(6);
            auto resid = [&](int st_) -> uint64_t {
                switch (st_)
                {
                case 0: return r.below(1ULL << 32);                       // residues below 2^32: the only ones with a second representation
                case 1: return r.below(4);                                // 0,1,2,3
                case 2: return PP - 1 - r.below(1ULL << 32);              // just below p
                case 3: return g.fixed[r.below(g.fixed.size())] % PP;     // boundary vector
                case 4: return r.coin() ? r.below(1ULL << 32) : PP - 1 - r.below(1ULL << 20);
                default: return r.next() % PP;
                }
            };
            if (stage >= 4 && stage <= 25)
            {
                int pr = stage - 4;
                bool by_column = r.below(4) == 0; // products of T[0] with the column coefficients instead of the dot coefficients
                for (int j = 0; j < 12; j++)
                {
                    uint64_t co = ref.S[23 * pr + j];
                    T[j] = co ? orc::mul(resid(style), orc::inv(co)) : resid(style);
                }
                if (by_column)
                {
                    int k = 1 + (int)r.below(11);
                    uint64_t co = ref.S[23 * pr + 11 + k];
                    if (co) T[0] = orc::mul(resid(style), orc::inv(co));
                }
                if (style == 3 && r.coin()) for (int j = 0; j < 12; j++) T[j] = g.fixed[r.below(g.fixed.size())]; // the vector itself on boundaries
            }
            else if (stage == 3)
            {
                int col = (int)r.below(12);
                for (int j = 0; j < 12; j++)
                {
                    uint64_t co = ref.Pm[j][col];
                    T[j] = co ? orc::mul(resid(style), orc::inv(co)) : resid(style);
                }
            }
            else
            {
                int row = (int)r.below(12);
                for (int j = 0; j < 12; j++)
                {
                    uint64_t m = flatM(12 * row + j);
                    if (m == 0) m = 1;
                    switch (style)
                    {
                    case 0: T[j] = (0xFFFFFFFFFFFFFFFFULL - r.below(4)) / m; break;
                    case 1: T[j] = (PP + r.below(0xFFFFFFFFULL)) / m; break;
                    case 2: T[j] = g.fixed[r.below(g.fixed.size())]; break;
                    case 3: T[j] = r.coin() ? 0x5555555555555555ULL : 0xFFFFFFFFFFFFFFFFULL / (1 + r.below(255)); break;
                    default: T[j] = r.below(3) ? (PP - 1 - r.below(1ULL << 33)) : r.below(1ULL << 33); break;
                    }
                }
            }
            ref.solve_stage(st, T, stage);
            if (selfchecks < 64)
            {
                // the oracle must reproduce the chosen vector at that stage from the solved input (harness self-check)
                uint64_t o[12], cap[12];
                ref.permute(o, st, stage, cap);
                for (int i = 0; i < 12; i++) if (cap[i] != orc::canon(T[i])) { fprintf(stderr, "harness error: solve_stage(%d) does not reproduce its target\n", stage); abort(); }
                selfchecks++;
            }
            if (r.coin()) for (int i = 0; i < 12; i++) if (st[i] < 0xFFFFFFFFULL && r.coin()) st[i] += PP;
            return stage == 3 ? "inverse_constructed_P_layer" : (stage <= 25 ? "inverse_constructed_partial_round" : "inverse_constructed_second_half");
        }
        default:
        {
            // inverse-constructed: choose the vector T that must reach the linear layer of full round `depth`
            int depth = (int)((idx / 8) % 3);
            uint64_t T[12];
            int style = (int)r.below(5);
            int row = (int)r.below(12);
            for (int j = 0; j < 12; j++)
            {
                uint64_t m = flatM(12 * row + j);
                if (m == 0) m = 1;
                switch (style)
                {
                case 0: T[j] = (0xFFFFFFFFFFFFFFFFULL - r.below(4)) / m; break;                // products just below 2^64
                case 1: T[j] = (PP + r.below(0xFFFFFFFFULL)) / m; break;                         // products in the band [p, 2^64)
                case 2: T[j] = g.fixed[r.below(g.fixed.size())]; break;                          // boundary vector
                case 3: T[j] = r.coin() ? 0x5555555555555555ULL : 0xFFFFFFFFFFFFFFFFULL / (1 + r.below(255)); break;
                default: T[j] = r.below(3) ? (PP - 1 - r.below(1ULL << 33)) : r.below(1ULL << 33); break; // near p and near 0
                }
            }
            ref.solve_input(st, T, depth);
            // half of the time present the solved input in its non-canonical alias where one exists
            if (r.coin()) for (int i = 0; i < 12; i++) if (st[i] < 0xFFFFFFFFULL && r.coin()) st[i] += PP;
            return depth == 0 ? "inverse_constructed_round0" : (depth == 1 ? "inverse_constructed_round1" : "inverse_constructed_round2");
        }
        }
    }
};

static void cmp12(Report &rep, const char *prop, const char *backend, const char *family, const uint64_t in[12], const El *got, const uint64_t exp[12], int n = 12)
{
    for (int i = 0; i < n; i++)
        if (orc::canon(got[i].fe) != exp[i])
        {
            uint64_t g[12];
            for (int k = 0; k < n; k++) g[k] = got[k].fe;
            rep.violation(std::string(prop) + ":" + backend + ":wrong-value", J().str("backend", backend).str("family", family).i("first_bad_position", i).raw("input", vf::jarr_hex(in, 12)).raw("got", vf::jarr_hex(g, n)).raw("expected", vf::jarr_hex(exp, n)).done());
            return;
        }
}

static void run_c06(const vf::Args &args, Report &rep)
{
    Ref ref;
    if (args.shard == 0) check_tables(rep, ref, "C06");
    StateGen sg(ref);
    Rng rng(vf::mix64(args.seed, 0xC06 + args.shard * 2741));
    uint64_t n = args.getu("states", args.thorough() ? 50000000ULL : 400000ULL) / args.nshards;
    uint64_t prev[12] = {0};
    for (uint64_t t = 0; t < n; t++)
    {
        uint64_t st[12], exp[12];
        const char *fam = sg.make(rng, st, t);
        ref.permute(exp, st);
        rep.evaluations++;
        El in[12], out[12];
        for (int i = 0; i < 12; i++) in[i].fe = st[i];
        PoseidonGoldilocks::hash_full_result_seq(out, in);
        cmp12(rep, "C06", "hash_full_result_seq", fam, st, out, exp);
        PoseidonGoldilocks::hash_full_result(out, in);
        vf::digest("hash_full_result", t, out, sizeof out);
        cmp12(rep, "C06", "hash_full_result", fam, st, out, exp);
        {
            // in place, as the sponge calls it
            El io[12];
            memcpy(io, in, sizeof io);
            PoseidonGoldilocks::hash_full_result(io, io);
            cmp12(rep, "C06", "hash_full_result(in place)", fam, st, io, exp);
            memcpy(io, in, sizeof io);
            PoseidonGoldilocks::hash_full_result_seq(io, io);
            cmp12(rep, "C06", "hash_full_result_seq(in place)", fam, st, io, exp);
        }
        if ((t & 3) == 0)
        {
            // a chain of calls, each fed with the previous result, in place (the way the sponge drives it): perm^k(x) for k = 1..3,
            // then the capacity hash of the last result; a call must not depend on what the previous call was given or returned
            uint64_t cur[12], nxt[12];
            memcpy(cur, st, sizeof cur);
            El io[12], io2[12];
            memcpy(io, in, sizeof io);
            memcpy(io2, in, sizeof io2);
            for (int k = 1; k <= 3; k++)
            {
                ref.permute(nxt, cur);
                PoseidonGoldilocks::hash_full_result(io, io);
                cmp12(rep, "C06", k == 1 ? "hash_full_result(chain step 1)" : "hash_full_result(chained in place)", fam, cur, io, nxt);
                PoseidonGoldilocks::hash_full_result_seq(io2, io2);
                cmp12(rep, "C06", k == 1 ? "hash_full_result_seq(chain step 1)" : "hash_full_result_seq(chained in place)", fam, cur, io2, nxt);
                memcpy(cur, nxt, sizeof cur);
            }
            ref.permute(nxt, cur);
            El c4[4];
            PoseidonGoldilocks::hash((El(&)[4]) * c4, (const El(&)[12]) * io);
            cmp12(rep, "C06", "hash(after chained calls)", fam, cur, c4, nxt, 4);
            PoseidonGoldilocks::hash_seq((El(&)[4]) * c4, (const El(&)[12]) * io2);
            cmp12(rep, "C06", "hash_seq(after chained calls)", fam, cur, c4, nxt, 4);
            rep.cls("forms:chained_in_place_calls");
        }
        {
            El c4[4];
            PoseidonGoldilocks::hash_seq((El(&)[4]) * c4, (const El(&)[12]) * in);
            cmp12(rep, "C06", "hash_seq", fam, st, c4, exp, 4);
            PoseidonGoldilocks::hash((El(&)[4]) * c4, (const El(&)[12]) * in);
            cmp12(rep, "C06", "hash", fam, st, c4, exp, 4);
        }
#ifdef __AVX512__
        {
            // pair (st, prev) and swapped (prev, st) in the interleaved layout: [s1 0..3 | s2 0..3 | s1 4..7 | s2 4..7 | s1 8..11 | s2 8..11]
            uint64_t expp[12];
            ref.permute(expp, prev);
            for (int sw = 0; sw < 2; sw++)
            {
                const uint64_t *a = sw ? prev : st, *b = sw ? st : prev;
                const uint64_t *ea = sw ? expp : exp, *eb = sw ? exp : expp;
                El in2[24], out2[24];
                for (int j = 0; j < 3; j++) for (int i = 0; i < 4; i++) { in2[8 * j + i].fe = a[4 * j + i]; in2[8 * j + 4 + i].fe = b[4 * j + i]; }
                PoseidonGoldilocks::hash_full_result_avx512(out2, in2);
                vf::digest("hash_full_result_avx512", t * 2 + sw, out2, sizeof out2);
                El oa[12], ob[12];
                for (int j = 0; j < 3; j++) for (int i = 0; i < 4; i++) { oa[4 * j + i] = out2[8 * j + i]; ob[4 * j + i] = out2[8 * j + 4 + i]; }
                cmp12(rep, "C06", sw ? "hash_full_result_avx512(second state)" : "hash_full_result_avx512(first state)", fam, st, sw ? ob : oa, exp);
                cmp12(rep, "C06", sw ? "hash_full_result_avx512(first state, partner)" : "hash_full_result_avx512(second state, partner)", fam, prev, sw ? oa : ob, expp);
                (void)ea; (void)eb;
                if (sw == 0)
                {
                    El c8[8];
                    PoseidonGoldilocks::hash_avx512((El(&)[8]) * c8, (const El(&)[24]) * in2);
                    cmp12(rep, "C06", "hash_avx512(first state)", fam, st, c8, exp, 4);
                    cmp12(rep, "C06", "hash_avx512(second state)", fam, prev, c8 + 4, expp, 4);
                }
            }
            rep.cls("backend:avx512_pairs");
        }
#endif
        memcpy(prev, st, sizeof prev);
        rep.cls(std::string("family:") + fam);
        bool nc = false;
        for (int i = 0; i < 12; i++) if (st[i] >= PP) nc = true;
        if (nc) rep.cls("in:noncanonical_state_element");
        rep.nontrivial(vf::mix64(st[0] ^ st[7], st[3] ^ st[11]));
        if (t < 16) rep.sample(fam, J().raw("state", vf::jarr_hex(st, 12)).done());
    }
}

// ================================================================================== C07
template <typename F>
static void with_input(uint64_t n, bool upper, const uint64_t *vals, F f)
{
#if defined(__SANITIZE_ADDRESS__)
    uint64_t *p = (uint64_t *)malloc(n ? n * 8 : 1);
    memcpy(p, vals, n * 8);
    f((El *)p);
    free(p);
#else
    arena::GuardBuf<uint64_t> g(n, upper, 8);
    memcpy(g.p, vals, n * 8);
    f((El *)g.p);
#endif
}

static void run_c07(const vf::Args &args, Report &rep)
{
    Ref ref;
    if (args.shard == 0) check_tables(rep, ref, "C07");
    StateGen sg(ref);
    gen::G64 &g = sg.g;
    std::vector<uint64_t> lens;
    for (uint64_t l = 0; l <= 264; l++) lens.push_back(l);
    for (uint64_t l : {1000ULL, 4096ULL, 4097ULL, 65537ULL}) lens.push_back(l);
    if (args.thorough()) for (uint64_t l : {1048576ULL + 5, 777777ULL}) lens.push_back(l);
    // beyond 2^24 elements (lengths a float cannot hold exactly): only in the runs that ask for it (production flags; 128 MiB per input)
    if (args.getu("beyond24", 0)) { lens.push_back((1ULL << 24) + 1); if (args.thorough()) lens.push_back((1ULL << 24) + 9); }
    bool fast_checked = false;
    auto crosscheck_fast = [&]() {
        // the fast arithmetic used by the oracle for inputs longer than 100000 elements must agree with the u128 % oracle
        if (fast_checked) return;
        fast_checked = true;
        Rng q(vf::mix64(args.seed, 0xFA57));
        for (int k = 0; k < 3000; k++)
        {
            uint64_t a[12], o1[12], o2[12];
            for (int i = 0; i < 12; i++) a[i] = k % 3 == 0 ? g.fixed[q.below(g.fixed.size())] : (k % 3 == 1 ? g.pick(q) : q.next());
            ref.permute(o1, a);
            ref.permute_fast(o2, a);
            if (memcmp(o1, o2, sizeof o1)) { fprintf(stderr, "harness error: the two oracle arithmetics disagree\n"); abort(); }
        }
        rep.cls("oracle:fast_arithmetic_crosschecked", 3000);
    };
    uint64_t contents = args.getu("contents", args.thorough() ? 2000 : 48);
    uint64_t idx = 0;
    static const uint64_t SENT = 0x5E5E5E5E5E5E5E5EULL;
    for (uint64_t l : lens)
        for (uint64_t ct = 0; ct < (l > 10000000 ? 1 : (l > 300 ? std::max<uint64_t>(2, contents / 16) : contents)); ct++, idx++)
        {
            if ((int)(vf::mix64(idx, 3) % args.nshards) != args.shard) continue;
            Rng r(vf::mix64(vf::mix64(args.seed, l), ct));
            // two inputs of length l (the AVX-512 variant hashes two at a time)
            std::vector<uint64_t> in(2 * l + 1);
            int style = (int)(ct % 4);
            for (uint64_t i = 0; i < 2 * l; i++)
                in[i] = style == 0 ? r.next() : (style == 1 ? g.fixed[r.below(g.fixed.size())] : g.pick(r));
            if (style == 3 && l >= 8)
            { // inverse-constructed first block (capacity is zero in the first permutation)
                uint64_t T[12], st[12];
                for (int tries = 0; tries < 50; tries++)
                {
                    int row = (int)r.below(12);
                    for (int j = 0; j < 12; j++) { uint64_t m = flatM(12 * row + j); T[j] = (PP + r.below(0xFFFFFFFFULL)) / (m ? m : 1); }
                    ref.solve_input(st, T, 0);
                    // the capacity part of the first block is zero: only usable when the solved capacity is zero - instead just use the rate part
                    break;
                }
                for (int i = 0; i < 8; i++) in[i] = st[i];
            }
            uint64_t e1[4], e2[4];
            if (l > 100000) crosscheck_fast();
            if (l > 10000000) memcpy(in.data() + l, in.data(), l * 8); // very long: the same content twice, one oracle sponge
            ref.sponge(e1, in.data(), l);
            if (l > 10000000) memcpy(e2, e1, sizeof e2); else ref.sponge(e2, in.data() + l, l);
            bool upper = (ct & 1) == 0;
            rep.evaluations++;
            auto check4 = [&](const char *backend, const uint64_t *cells, const uint64_t *exp, int which) {
                // cells: 4 output cells framed by sentinels: cells[-2..-1] and cells[4..5]
                for (int i = 0; i < 4; i++)
                {
                    bool ok = l <= 4 ? cells[i] == exp[i] : orc::canon(cells[i]) == exp[i];
                    if (!ok)
                    {
                        rep.violation(std::string("C07:") + backend + ":wrong-digest:" + (l <= 4 ? "passthrough" : (l % 8 ? "padded-last-block" : "full-last-block")),
                                      J().str("backend", backend).u("length", l).i("which_input", which).i("position", i).h("got", cells[i]).h("expected", exp[i]).u("content", ct).done());
                        break;
                    }
                }
            };
            // --- scalar and AVX2 (single input)
            for (int be = 0; be < 2; be++)
            {
                const char *bn = be ? "linear_hash" : "linear_hash_seq";
                with_input(l, upper, in.data(), [&](El *p) {
                    uint64_t frame[8] = {SENT, SENT, SENT + 1, SENT + 2, SENT + 3, SENT + 4, SENT, SENT};
#if defined(__SANITIZE_ADDRESS__)
                    uint64_t *o = (uint64_t *)malloc(32);
                    if (be) PoseidonGoldilocks::linear_hash((El *)o, p, l); else PoseidonGoldilocks::linear_hash_seq((El *)o, p, l);
                    memcpy(frame + 2, o, 32);
                    free(o);
#else
                    if (be) PoseidonGoldilocks::linear_hash((El *)(frame + 2), p, l); else PoseidonGoldilocks::linear_hash_seq((El *)(frame + 2), p, l);
#endif
                    if (frame[0] != SENT || frame[1] != SENT || frame[6] != SENT || frame[7] != SENT)
                        rep.violation(std::string("C07:") + bn + ":writes-beyond-digest", J().u("length", l).done());
                    vf::digest(bn, vf::mix64(l, ct), frame, sizeof frame);
                    check4(bn, frame + 2, e1, 0);
                    if (memcmp(p, in.data(), l * 8)) rep.violation(std::string("C07:") + bn + ":input-modified", J().u("length", l).done());
                });
            }
#ifdef __AVX512__
            with_input(2 * l, upper, in.data(), [&](El *p) {
                uint64_t frame[12] = {SENT, SENT, 1, 2, 3, 4, 5, 6, 7, 8, SENT, SENT};
#if defined(__SANITIZE_ADDRESS__)
                uint64_t *o = (uint64_t *)malloc(64);
                PoseidonGoldilocks::linear_hash_avx512((El *)o, p, l);
                memcpy(frame + 2, o, 64);
                free(o);
#else
                PoseidonGoldilocks::linear_hash_avx512((El *)(frame + 2), p, l);
#endif
                if (frame[0] != SENT || frame[1] != SENT || frame[10] != SENT || frame[11] != SENT)
                    rep.violation("C07:linear_hash_avx512:writes-beyond-digest", J().u("length", l).done());
                vf::digest("linear_hash_avx512", vf::mix64(l, ct), frame, sizeof frame);
                check4("linear_hash_avx512", frame + 2, e1, 0);
                check4("linear_hash_avx512", frame + 6, e2, 1);
                if (memcmp(p, in.data(), 2 * l * 8)) rep.violation("C07:linear_hash_avx512:input-modified", J().u("length", l).done());
            });
            rep.cls("backend:avx512");
#endif
            rep.cls(l <= 4 ? "len:passthrough(<=4)" : (l <= 8 ? "len:single_block" : (l % 8 == 0 ? "len:multiple_of_8" : "len:ragged_last_block")));
            rep.cls("len:residue_mod8_" + std::to_string(l % 8));
            if (l == 0) rep.cls("len:zero");
            if (l == 4 || l == 5) rep.cls("len:threshold_4_5");
            if (l > 300) rep.cls("len:long");
            if (l > (1ULL << 24)) rep.cls("len:beyond_2^24_elements");
            rep.cls(upper ? "arena:guard_page_after_input" : "arena:guard_page_before_input");
            rep.nontrivial(vf::mix64(l, ct ^ in[0]));
            if (ct == 0 && (l % 37) == 0) rep.sample("linear_hash", J().u("length", l).str("content", style == 0 ? "uniform" : (style == 1 ? "boundary" : (style == 2 ? "mixed" : "inverse_constructed_first_block"))).done());
        }
}

// ================================================================================== C08
struct TreeCfg
{
    int builder; // 0 seq, 1 avx, 2 avx512, 3 default wrapper, 4 batch_seq, 5 batch_avx, 6 batch_avx512, 7 batch wrapper
    uint64_t rows, cols, dim, batch;
    int threads;
    std::string json() const { return J().i("builder", builder).u("rows", rows).u("cols", cols).u("dim", dim).u("batch", batch).i("threads", threads).done(); }
};
static const char *BN[] = {"merkletree_seq", "merkletree_avx", "merkletree_avx512", "merkletree", "merkletree_batch_seq", "merkletree_batch_avx", "merkletree_batch_avx512", "merkletree_batch"};

static void ref_tree(const Ref &ref, std::vector<uint64_t> &tree, const std::vector<uint64_t> &in, const TreeCfg &c, bool batched)
{
    uint64_t rows = c.rows, rowlen = c.cols * c.dim;
    tree.assign(4 * (2 * rows - 1), 0);
    for (uint64_t i = 0; i < rows; i++)
    {
        if (!batched) ref.sponge(&tree[4 * i], in.data() + i * rowlen, rowlen);
        else
        {
            uint64_t nb = c.cols ? (c.cols + c.batch - 1) / c.batch : 1;
            std::vector<uint64_t> dg(4 * nb);
            for (uint64_t j = 0; j < nb; j++)
            {
                uint64_t first = j * c.batch;
                uint64_t nn = (j == nb - 1) ? c.cols - first : c.batch;
                ref.sponge(&dg[4 * j], in.data() + i * rowlen + first * c.dim, nn * c.dim);
            }
            ref.sponge(&tree[4 * i], dg.data(), 4 * nb);
        }
    }
    uint64_t off = 0, level = rows;
    while (level > 1)
    {
        for (uint64_t i = 0; i < level / 2; i++)
        {
            uint64_t blk[12] = {0}, o[12];
            memcpy(blk, &tree[off + 8 * i], 64);
            ref.permute(o, blk);
            memcpy(&tree[off + 4 * (level + i)], o, 32);
        }
        off += 4 * level;
        level /= 2;
    }
}

static void run_c08(const vf::Args &args, Report &rep)
{
    Ref ref;
    if (args.shard == 0) check_tables(rep, ref, "C08");
    gen::G64 g;
    std::vector<TreeCfg> cfgs;
    std::vector<uint64_t> rowsv = {1, 2, 4, 8, 16, 32, 64, 128, 256};
    if (args.thorough()) { rowsv.push_back(1024); rowsv.push_back(4096); rowsv.push_back(16384); }
    std::vector<uint64_t> colsv;
    for (uint64_t c = 0; c <= 20; c++) colsv.push_back(c);
    for (uint64_t c : {63ULL, 64ULL, 65ULL, 128ULL, 129ULL}) colsv.push_back(c);
    const int thr[] = {0, 1, 2, 3, 8, 17};
    uint64_t thin = args.getu("thin", args.thorough() ? 1 : 4);
#ifdef __AVX512__
    const int builders[] = {0, 1, 2, 3, 4, 5, 6, 7};
#else
    const int builders[] = {0, 1, 3, 4, 5, 7};
#endif
    for (uint64_t rows : rowsv)
        for (uint64_t cols : colsv)
            for (uint64_t dim : {1ULL, 2ULL, 3ULL})
                for (int b : builders)
                {
                    if (rows >= 1024 && cols > 20) continue;
                    if (rows >= 16384 && (cols > 9 || dim > 1)) continue;
                    std::vector<uint64_t> batches = {0};
                    if (b >= 4)
                    {
                        batches = {1, 2, 3, 7, 8, cols ? cols - 1 : 1, cols ? cols : 1, cols + 1, 1000};
                        std::sort(batches.begin(), batches.end());
                        batches.erase(std::unique(batches.begin(), batches.end()), batches.end());
                        if (batches[0] == 0) batches.erase(batches.begin());
                    }
                    for (uint64_t bt : batches)
                    {
                        uint64_t h = vf::mix64(vf::mix64(rows * 131 + cols, dim * 17 + b), bt);
                        bool small = rows <= 2 || cols <= 1; // smallest shapes are always kept
                        if (thin > 1 && !small && h % thin) continue;
                        TreeCfg c{b, rows, cols, dim, bt, thr[(h / 5) % 6]};
                        cfgs.push_back(c);
                    }
                }
    std::vector<uint64_t> mineidx;
    for (uint64_t i = 0; i < cfgs.size(); i++) if ((int)(vf::mix64(i, 5) % args.nshards) == args.shard && (args.getu("slice", 1) <= 1 || vf::mix64(i, 9) % args.getu("slice", 1) == 0)) mineidx.push_back(i);
    vf::ForkCfg fc;
    fc.group = 64; fc.case_timeout = args.thorough() ? 900 : 240; fc.nofork = args.nofork; fc.errdir = args.errdir; fc.family = "merkle";
    vf::run_forked(rep, mineidx.size(), fc,
        [&](uint64_t i) { return cfgs[mineidx[i]].json(); },
        [&](uint64_t i) { const TreeCfg &c = cfgs[mineidx[i]]; return std::string("C08:") + BN[c.builder] + ":rows" + (c.rows == 1 ? "1" : (c.rows == 2 ? "2" : "N")) + ":cols" + (c.cols == 0 ? "0" : "N") + "(rows=" + std::to_string(c.rows) + ",cols=" + std::to_string(c.cols) + ",dim=" + std::to_string(c.dim) + ",batch=" + std::to_string(c.batch) + ")"; },
        [&](uint64_t i, Report &rp) {
            const TreeCfg &c = cfgs[mineidx[i]];
            if (verif_omp_set_mode) verif_omp_set_mode(args.get("omp", "seq") == "seq" ? 1 : 0, vf::mix64(args.seed, i) | 1, 0);
            Rng r(vf::mix64(args.seed, vf::mix64(c.rows * 1000 + c.cols, c.dim * 10 + c.builder) ^ c.batch));
            uint64_t n = c.rows * c.cols * c.dim;
            std::vector<uint64_t> in(n + 1);
            int style = (int)r.below(3);
            for (uint64_t k = 0; k < n; k++) in[k] = style == 0 ? r.next() : (style == 1 ? g.pick(r) : g.fixed[r.below(g.fixed.size())]);
            std::vector<uint64_t> exp;
            ref_tree(ref, exp, in, c, c.builder >= 4);
            uint64_t ne = MerklehashGoldilocks::getTreeNumElements(c.rows);
            rp.evaluations++;
            if (ne != 4 * (2 * c.rows - 1)) rp.violation("C08:getTreeNumElements:wrong-size", J().u("rows", c.rows).u("got", ne).done());
            bool upper = (i & 1) == 0;
            static const uint64_t SENT = 0x7E7E7E7E00000000ULL;
#if defined(__SANITIZE_ADDRESS__)
            uint64_t *tin = (uint64_t *)malloc(n ? n * 8 : 1);
            uint64_t *tt = (uint64_t *)malloc(ne * 8);
#else
            arena::GuardBuf<uint64_t> gin(n, upper, 8), gt(ne, !upper ? true : (i & 2) != 0, 8);
            uint64_t *tin = gin.p, *tt = gt.p;
#endif
            memcpy(tin, in.data(), n * 8);
            for (uint64_t k = 0; k < ne; k++) tt[k] = SENT + k;
            El *T = (El *)tt, *I = (El *)tin;
            switch (c.builder)
            {
            case 0: PoseidonGoldilocks::merkletree_seq(T, I, c.cols, c.rows, c.threads, c.dim); break;
            case 1: PoseidonGoldilocks::merkletree_avx(T, I, c.cols, c.rows, c.threads, c.dim); break;
            case 3: PoseidonGoldilocks::merkletree(T, I, c.cols, c.rows, c.threads, c.dim); break;
            case 4: PoseidonGoldilocks::merkletree_batch_seq(T, I, c.cols, c.rows, c.batch, c.threads, c.dim); break;
            case 5: PoseidonGoldilocks::merkletree_batch_avx(T, I, c.cols, c.rows, c.batch, c.threads, c.dim); break;
            case 7: PoseidonGoldilocks::merkletree_batch(T, I, c.cols, c.rows, c.batch, c.threads, c.dim); break;
#ifdef __AVX512__
            case 2: PoseidonGoldilocks::merkletree_avx512(T, I, c.cols, c.rows, c.threads, c.dim); break;
            case 6: PoseidonGoldilocks::merkletree_batch_avx512(T, I, c.cols, c.rows, c.batch, c.threads, c.dim); break;
#endif
            }
            std::string stem = std::string("C08:") + BN[c.builder];
            vf::digest(std::string(BN[c.builder]) + ":rows" + std::to_string(c.rows), vf::mix64(vf::mix64(c.rows * 131 + c.cols, c.dim * 17 + c.builder), c.batch), tt, ne * 8);
            for (uint64_t k = 0; k < ne; k++)
            {
                // leaf digests of rows with <= 4 elements are pass-through copies: bit identical; everything else as field elements
                bool ok = orc::canon(tt[k]) == orc::canon(exp[k]);
                if (!ok)
                {
                    const char *where = k < 4 * c.rows ? "leaf-digest" : (k >= ne - 4 ? "root" : "inner-node");
                    rp.violation(stem + ":wrong-tree:" + where + ":rows" + (c.rows == 1 ? "1" : "N") + ":cols" + (c.cols == 0 ? "0" : "N"),
                                 J().raw("cfg", c.json()).u("element", k).h("got", tt[k]).h("expected", exp[k]).done());
                    break;
                }
            }
            if (memcmp(tin, in.data(), n * 8)) rp.violation(stem + ":input-modified", J().raw("cfg", c.json()).done());
            El root[4], root2[4];
            El *rootp = root;
            MerklehashGoldilocks::root(rootp, T, ne);
            {
                void (*rootref)(El(&)[4], El *, uint64_t) = &MerklehashGoldilocks::root;
                rootref(root2, T, ne);
            }
            for (int k = 0; k < 4; k++)
                if (root[k].fe != tt[ne - 4 + k] || root2[k].fe != tt[ne - 4 + k]) { rp.violation("C08:root:not-last-four", J().raw("cfg", c.json()).done()); break; }
#if defined(__SANITIZE_ADDRESS__)
            free(tin); free(tt);
#endif
            rp.cls(std::string("builder:") + BN[c.builder]);
            if (c.rows == 1) rp.cls("shape:one_row");
            if (c.cols == 0) rp.cls("shape:zero_columns");
            if (c.cols * c.dim <= 4 && c.cols) rp.cls("shape:row_passthrough(<=4 elements)");
            if (c.dim > 1) rp.cls("shape:dim>1");
            if (c.builder >= 4) rp.cls(c.batch > c.cols ? "batch:larger_than_cols" : (c.cols % c.batch ? "batch:ragged_last" : "batch:even"));
            if (c.threads == 0) rp.cls("threads:default(0)");
            if (c.threads > (int)c.rows) rp.cls("threads:more_than_rows");
            rp.nontrivial(vf::mix64(vf::mix64(c.rows * 131 + c.cols, c.dim * 17 + c.builder), c.batch * 7 + c.threads));
            if (i < 3) rp.sample("merkle", c.json());
        });
    rep.cls("family:merkle_configs", mineidx.size());
}

// C08: several plain threads build their own trees at the same time (each builder opens its own parallel regions)
static void call_builder(const TreeCfg &c, El *T, El *I)
{
    switch (c.builder)
    {
    case 0: PoseidonGoldilocks::merkletree_seq(T, I, c.cols, c.rows, c.threads, c.dim); break;
    case 1: PoseidonGoldilocks::merkletree_avx(T, I, c.cols, c.rows, c.threads, c.dim); break;
    case 3: PoseidonGoldilocks::merkletree(T, I, c.cols, c.rows, c.threads, c.dim); break;
    case 4: PoseidonGoldilocks::merkletree_batch_seq(T, I, c.cols, c.rows, c.batch, c.threads, c.dim); break;
    case 5: PoseidonGoldilocks::merkletree_batch_avx(T, I, c.cols, c.rows, c.batch, c.threads, c.dim); break;
    case 7: PoseidonGoldilocks::merkletree_batch(T, I, c.cols, c.rows, c.batch, c.threads, c.dim); break;
#ifdef __AVX512__
    case 2: PoseidonGoldilocks::merkletree_avx512(T, I, c.cols, c.rows, c.threads, c.dim); break;
    case 6: PoseidonGoldilocks::merkletree_batch_avx512(T, I, c.cols, c.rows, c.batch, c.threads, c.dim); break;
#endif
    default: break;
    }
}
static void run_c08_concurrent(const vf::Args &args, Report &rep)
{
    if (verif_omp_set_mode) return; // real runtime only (the stand-in keeps one global team description)
    Ref ref;
    gen::G64 g;
    uint64_t rounds = args.getu("concurrent_rounds", args.thorough() ? 600 : 48);
    std::vector<uint64_t> mine;
    for (uint64_t r = 0; r < rounds; r++) if ((int)(r % args.nshards) == args.shard) mine.push_back(r);
    vf::ForkCfg fc;
    fc.group = 8; fc.case_timeout = 120; fc.nofork = args.nofork; fc.errdir = args.errdir; fc.family = "merkle_concurrent_callers";
    vf::run_forked(rep, mine.size(), fc,
        [&](uint64_t i) { return J().str("op", "trees built by plain threads at the same time").u("round", mine[i]).done(); },
        [&](uint64_t) { return std::string("C08:concurrent-callers"); },
        [&](uint64_t i, Report &rp) {
            const int T = 4;
            Rng r(vf::mix64(args.seed, 0xC08C + mine[i] * 977));
            struct Job { TreeCfg c; std::vector<uint64_t> in, exp, got; int bad = 0; uint64_t badk = 0; };
            std::vector<Job> jobs(T);
#ifdef __AVX512__
            const int NB = 8;
#else
            static const int AVX2B[] = {0, 1, 3, 4, 5, 7};
            const int NB = 6;
#endif
            int same = (int)r.below(3) == 0 ? (int)r.below(NB) : -1; // a third of the rounds: all members use the same builder
            for (auto &j : jobs)
            {
                int b = same >= 0 ? same : (int)r.below(NB);
#ifndef __AVX512__
                b = AVX2B[b];
#endif
                j.c.builder = b;
                j.c.rows = 1ULL << r.below(6);
                static const uint64_t COLS[] = {0, 1, 3, 5, 9, 17, 65};
                j.c.cols = COLS[r.below(7)];
                j.c.dim = 1 + r.below(3);
                j.c.batch = 1 + r.below(9);
                j.c.threads = (int)r.below(4);
                uint64_t n = j.c.rows * j.c.cols * j.c.dim;
                j.in.resize(n + 1);
                for (uint64_t k = 0; k < n; k++) j.in[k] = r.coin() ? r.next() : g.pick(r);
                ref_tree(ref, j.exp, j.in, j.c, b >= 4);
                j.got.assign(j.exp.size(), 0x7E7E7E7E7E7E7E7EULL);
            }
            vf::team(T, [&](int me) {
                Job &j = jobs[me];
                for (int rep_i = 0; rep_i < 3 && !j.bad; rep_i++)
                {
                    std::fill(j.got.begin(), j.got.end(), 0x7E7E7E7E7E7E7E7EULL);
                    call_builder(j.c, (El *)j.got.data(), (El *)j.in.data());
                    for (uint64_t k = 0; k < j.exp.size(); k++)
                        if (orc::canon(j.got[k]) != orc::canon(j.exp[k])) { j.bad = 1; j.badk = k; break; }
                }
            });
            for (auto &j : jobs)
            {
                if (j.bad)
                    rp.violation(std::string("C08:") + BN[j.c.builder] + ":concurrent-callers:wrong-tree", J().raw("cfg", j.c.json()).u("element", j.badk).h("got", j.got[j.badk]).h("expected", j.exp[j.badk])
                                                                                                              .str("what", "4 plain threads building their own trees at the same time").done());
                rp.cls(std::string("concurrent:builder:") + BN[j.c.builder]);
            }
            rp.evaluations += T * 3;
            rp.cls("family:concurrent_callers", T * 3);
            rp.nontrivial(vf::mix64(mine[i], 0xC08C));
        });
}

// C06: the entry points called at the same time by several plain threads (not an OpenMP team), every thread on its own states
static void run_c06_concurrent(const vf::Args &args, Report &rep)
{
    Ref ref;
    StateGen sg(ref);
    const int T = 8;
    uint64_t per = args.getu("concurrent_states", args.thorough() ? 400000ULL : 24000ULL) / args.nshards / T + 1;
    struct Job { uint64_t st[12], exp[12]; };
    std::vector<std::vector<Job>> jobs(T, std::vector<Job>(per));
    Rng rng(vf::mix64(args.seed, 0xC06C + args.shard * 977));
    for (auto &v : jobs)
        for (auto &j : v) { static uint64_t ctr = 0; sg.make(rng, j.st, ctr++); ref.permute(j.exp, j.st); }
    struct Bad { const char *backend = nullptr; Job j; uint64_t got[12]; };
    Bad bad[T];
    vf::team(T, [&](int me) {
        for (int rep_i = 0; rep_i < 4; rep_i++)
            for (uint64_t k = 0; k < per; k++)
            {
                Job &j = jobs[me][k];
                El in[12], out[12];
                for (int i = 0; i < 12; i++) in[i].fe = j.st[i];
                auto chk = [&](const char *backend, const El *got, const uint64_t *exp, int n) {
                    for (int i = 0; i < n; i++)
                        if (orc::canon(got[i].fe) != exp[i] && !bad[me].backend) { bad[me].backend = backend; bad[me].j = j; for (int q = 0; q < 12; q++) bad[me].got[q] = q < n ? got[q].fe : 0; }
                };
                // the first call of a member is the vector path in even members and the scalar path in odd ones
                if (me & 1) { PoseidonGoldilocks::hash_full_result_seq(out, in); chk("hash_full_result_seq", out, j.exp, 12); }
                PoseidonGoldilocks::hash_full_result(out, in);
                chk("hash_full_result", out, j.exp, 12);
                if (!(me & 1)) { PoseidonGoldilocks::hash_full_result_seq(out, in); chk("hash_full_result_seq", out, j.exp, 12); }
                El c4[4];
                PoseidonGoldilocks::hash_seq((El(&)[4]) * c4, (const El(&)[12]) * in);
                chk("hash_seq", c4, j.exp, 4);
                PoseidonGoldilocks::hash((El(&)[4]) * c4, (const El(&)[12]) * in);
                chk("hash", c4, j.exp, 4);
#ifdef __AVX512__
                {
                    Job &j2 = jobs[me][(k + 1) % per];
                    El in2[24], out2[24];
                    for (int i = 0; i < 12; i++) { in2[(i / 4) * 8 + i % 4].fe = j.st[i]; in2[(i / 4) * 8 + 4 + i % 4].fe = j2.st[i]; }
                    PoseidonGoldilocks::hash_full_result_avx512(out2, in2);
                    El oa[12], ob[12];
                    for (int i = 0; i < 12; i++) { oa[i] = out2[(i / 4) * 8 + i % 4]; ob[i] = out2[(i / 4) * 8 + 4 + i % 4]; }
                    chk("hash_full_result_avx512", oa, j.exp, 12);
                    if (!bad[me].backend) { for (int i = 0; i < 12; i++) if (orc::canon(ob[i].fe) != j2.exp[i]) { bad[me].backend = "hash_full_result_avx512"; bad[me].j = j2; for (int q = 0; q < 12; q++) bad[me].got[q] = ob[q].fe; break; } }
                }
#endif
            }
    });
    for (int t = 0; t < T; t++)
        if (bad[t].backend)
            rep.violation(std::string("C06:") + bad[t].backend + ":concurrent-callers:wrong-value",
                          J().str("backend", bad[t].backend).str("what", "8 plain threads permuting their own states at the same time").raw("input", vf::jarr_hex(bad[t].j.st, 12)).raw("got", vf::jarr_hex(bad[t].got, 12)).raw("expected", vf::jarr_hex(bad[t].j.exp, 12)).i("thread", t).done());
    rep.evaluations += per * T * 4;
    rep.cls("family:concurrent_callers", per * T * 4);
}

// C07: the three variants called concurrently from a team of threads, every thread on its own inputs
static void run_c07_concurrent(const vf::Args &args, Report &rep)
{
    Ref ref;
    const int T = 8;
    uint64_t rounds = args.getu("concurrent_rounds", args.thorough() ? 400 : 40);
    struct Job { uint64_t len; std::vector<uint64_t> in; uint64_t e1[4], e2[4]; };
    for (uint64_t rd = 0; rd < rounds; rd++)
    {
        if ((int)(rd % args.nshards) != args.shard) continue;
        std::vector<Job> jobs(T * 6);
        Rng r(vf::mix64(args.seed, 0x7C0 + rd));
        for (auto &j : jobs)
        {
            j.len = r.below(3) == 0 ? r.below(5) : r.below(41);
            j.in.resize(2 * j.len + 1);
            for (uint64_t i = 0; i < 2 * j.len; i++) j.in[i] = r.next();
            ref.sponge(j.e1, j.in.data(), j.len);
            ref.sponge(j.e2, j.in.data() + j.len, j.len);
        }
        int bad[T];
        uint64_t badlen[T];
        for (int t = 0; t < T; t++) bad[t] = 0;
        vf::team(T, [&](int me_) {
            int me = me_;
            for (int rep_i = 0; rep_i < 20; rep_i++)
                for (size_t k = me; k < jobs.size(); k += T)
                {
                    Job &j = jobs[k];
                    El o[8];
                    auto ok4 = [&](const El *got, const uint64_t *e) { for (int i = 0; i < 4; i++) if (orc::canon(got[i].fe) != orc::canon(e[i])) return false; return true; };
                    PoseidonGoldilocks::linear_hash_seq(o, (El *)j.in.data(), j.len);
                    if (!ok4(o, j.e1) && !bad[me]) { bad[me] = 1; badlen[me] = j.len; }
                    PoseidonGoldilocks::linear_hash(o, (El *)j.in.data(), j.len);
                    if (!ok4(o, j.e1) && !bad[me]) { bad[me] = 2; badlen[me] = j.len; }
#ifdef __AVX512__
                    PoseidonGoldilocks::linear_hash_avx512(o, (El *)j.in.data(), j.len);
                    if ((!ok4(o, j.e1) || !ok4(o + 4, j.e2)) && !bad[me]) { bad[me] = 3; badlen[me] = j.len; }
#endif
                }
        });
        static const char *VN[] = {"", "linear_hash_seq", "linear_hash", "linear_hash_avx512"};
        for (int t = 0; t < T; t++)
            if (bad[t])
                rep.violation(std::string("C07:") + VN[bad[t]] + ":concurrent-callers:wrong-digest:" + (badlen[t] <= 4 ? "passthrough" : "hashed"),
                              J().str("variant", VN[bad[t]]).u("length", badlen[t]).str("what", "8 threads hashing their own inputs at the same time").done());
        rep.evaluations += jobs.size() * 20;
        rep.cls("family:concurrent_callers", jobs.size() * 20);
    }
}

int main(int argc, char **argv)
{
    vf::Args args = vf::parse_args(argc, argv);
    Report rep;
    rep.open(args.prop, args.out);
    std::string what = args.get("what", args.prop);
    if (what == "C06")
    {
        // odd shards: the very first use of the permutation in the process is the concurrent one (state prepared lazily on first use)
        if (args.shard & 1) { rep.cls("coldstart:first_use_is_concurrent"); run_c06_concurrent(args, rep); run_c06(args, rep); }
        else { run_c06(args, rep); run_c06_concurrent(args, rep); }
    }
    else if (what == "C07") { run_c07(args, rep); run_c07_concurrent(args, rep); }
    else if (what == "C08") { run_c08(args, rep); run_c08_concurrent(args, rep); }
    else if (what == "tablehash") { printf("0x%016llxULL\n", (unsigned long long)table_hash()); return 0; }
    else { fprintf(stderr, "unknown --prop\n"); return 3; }
    if (verif_omp_stats)
    {
        uint64_t st[5];
        verif_omp_stats(st);
        rep.cls("omp_shim:regions_parent", st[0]);
    }
    rep.finish();
    return 0;
}
