// C16: interface between the generated thunks (tools/gen_overloads16.py --emit) and the generic driver
// (harness/wrappers16.cpp).  Deliberately free of any /repo header: the driver translation unit stays small.
#pragma once
#include <cstdint>
#include <immintrin.h>

namespace c16 {

// Everything a thunk may hand to an overload.  Memory operands are raw uint64 cells (Goldilocks::Element is a
// standard-layout struct holding one uint64_t); registers are PLANAR: xa[i] holds coefficient i of all lanes.
struct Frame
{
    uint64_t *out, *a, *b, *bsum; // base pointers of memory operands / challenge sums (3 cells)
    uint64_t so, sa, sb;          // uniform strides
    uint64_t *io, *ia, *ib;       // per-lane start offsets
    uint64_t va, vb;              // by-value constant base elements
    int regalias;                 // 1 / 2: call with the result register triple being the triple of operand a / b (in-place form)
    __m256i ra[3], rb[3], rc[3], rs[3]; // 4-lane registers: operand a (ra[0] = single register of base elements), b, output, sums
#ifdef __AVX512__
    __m512i wa[3], wb[3], wc[3], ws[3]; // 8-lane registers
#endif
};

enum Loc : uint8_t { L_NONE, L_MEM, L_VAL, L_REF3, L_REG1, L_TRIPLE, L_REG3 };
enum Str : uint8_t { S_NONE, S_DEFAULT, S_UNIFORM, S_INDEX };
enum Sums : uint8_t { M_NONE, M_MEM, M_REGS };

struct Opnd
{
    uint8_t kind;           // 0 = absent, 1 = base element, 3 = extension element
    uint8_t konst;          // one value shared by all lanes
    uint8_t loc;            // Loc
    uint8_t stride;         // Str
    uint8_t default_stride; // for S_DEFAULT
    uint8_t stride_bits;    // 64, or 32 for a uint32_t stride parameter
};

struct Ov
{
    const char *id, *name, *family, *sig;
    char op; // + - * =
    uint8_t lanes;
    Opnd out, a, b;
    uint8_t sums;
    int line;
    void (*fn)(Frame &);
};

struct Registrar
{
    Registrar(const Ov *t, unsigned n);
};

} // namespace c16
