// Shared between wrappers17.cpp (generic driver) and the generated thunk translation units
// (tools/gen_overloads.py writes c17_thunks_<k>.cpp into the private build directory at check time).
#pragma once
#include <cstdint>
#include <vector>
#include "goldilocks_base_field.hpp"

namespace c17 {

enum Shape : uint8_t { NONE = 0, MEM, STRIDE, INDEX, BCAST, REG };

// Everything a thunk may need to call its overload.  Registers travel as 8 x uint64 (unaligned load / store in the thunk).
struct Call
{
    Goldilocks::Element *c = nullptr, *a = nullptr, *b = nullptr; // base pointers of memory operands
    uint64_t sc = 0, sa = 0, sb = 0;                               // uniform strides
    uint64_t ic[8], ia[8], ib[8];                                  // index lists (mutable on purpose: some overloads take uint64_t x[4])
    Goldilocks::Element vc, va, vb;                                // broadcast values (vc unused)
    alignas(64) uint64_t rc[8], ra[8], rb[8];                      // registers
    int bcast_alias = 0;       // 1 / 2: the broadcast scalar of operand a / b is passed as the lvalue c[bcast_cell] (it lives in the result array)
    uint64_t bcast_cell = 0;
    int regalias = 0; // 1 / 2: the result register handed to the overload IS the register object of operand a / b (in-place call form)
};
typedef void (*Thunk)(Call &);

struct Ov
{
    const char *id;     // e.g. "add.M.S.I"
    const char *family; // batch | avx | avx512
    const char *op;     // copy | add | sub | mul
    int lanes;
    Shape c, a, b;      // shape of result, first input (src for copies), second input
    const char *sig;
    bool defined;
    Thunk fn;           // nullptr: no definition in the repository, or AVX-512 overload in a non-512 build
};

} // namespace c17

#ifdef __AVX512__
#define C17_IF512(x) x
#else
#define C17_IF512(x) nullptr
#endif

void c17_register_0(std::vector<c17::Ov> &v);
void c17_register_1(std::vector<c17::Ov> &v);
void c17_register_2(std::vector<c17::Ov> &v);
void c17_register_3(std::vector<c17::Ov> &v);
