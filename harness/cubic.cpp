// C09: scalar cubic-extension arithmetic F_p[x]/(x^3 - x - 1) against the schoolbook oracle.
#include "goldilocks_base_field.hpp"
#include "goldilocks_cubic_extension.hpp"
#include "harness.hpp"
#include "oracle.hpp"
#include "gen.hpp"
#include <memory>

using vf::J;
using vf::Report;
using vf::Rng;
typedef Goldilocks::Element El;
typedef Goldilocks3::Element E3;
static const uint64_t PP = 0xFFFFFFFF00000001ULL;

static inline void set3(E3 &e, const uint64_t v[3]) { e[0].fe = v[0]; e[1].fe = v[1]; e[2].fe = v[2]; }
static inline orc::E3 o3(const uint64_t v[3]) { return orc::c3(v[0], v[1], v[2]); }
static inline bool same(const E3 &e, const orc::E3 &x) { return orc::canon(e[0].fe) == x.c[0] && orc::canon(e[1].fe) == x.c[1] && orc::canon(e[2].fe) == x.c[2]; }
static std::string j3(const uint64_t v[3]) { return vf::jarr_hex(v, 3); }
static std::string je(const E3 &e) { uint64_t v[3] = {e[0].fe, e[1].fe, e[2].fe}; return vf::jarr_hex(v, 3); }

struct Ctx
{
    Report &rep;
    uint64_t *k_alias, *k_noncanon, *k_zero_coeffs, *k_base_elems;
    Ctx(Report &r) : rep(r)
    {
        k_alias = &r.counter("forms:aliasing_checked"); k_noncanon = &r.counter("in:noncanonical_coefficient");
        k_zero_coeffs = &r.counter("in:element_with_zero_coefficients"); k_base_elems = &r.counter("in:base_field_element(b=c=0)");
    }
    void fail(const char *op, const char *form, const uint64_t a[3], const uint64_t b[3], const E3 &got, const orc::E3 &exp)
    {
        rep.violation(std::string("C09:") + op + ":" + form + ":wrong-value", J().str("op", op).str("form", form).raw("a", j3(a)).raw("b", j3(b)).raw("got", je(got)).raw("expected", vf::jarr_hex(exp.c, 3)).done());
    }
};

// all binary / unary scalar ops on the pair (a, b); s = a 64-bit scalar / base element
static void pair_ops(Ctx &c, const uint64_t a[3], const uint64_t b[3], uint64_t s, Rng &rng)
{
    c.rep.evaluations++;
    orc::E3 oa = o3(a), ob = o3(b);
    E3 A, B, R;
    set3(A, a); set3(B, b);
    bool nc = false;
    for (int i = 0; i < 3; i++) if (a[i] >= PP || b[i] >= PP) nc = true;
    if (nc) (*c.k_noncanon)++;
    if (!orc::canon(a[1]) || !orc::canon(a[2]) || !orc::canon(a[0])) (*c.k_zero_coeffs)++;
    if (!orc::canon(a[1]) && !orc::canon(a[2])) (*c.k_base_elems)++;
#define CHK(op, form, exp)                                   \
    do { if (!same(R, exp)) c.fail(op, form, a, b, R, exp); } while (0)
    // add
    {
        orc::E3 e = orc::add3(oa, ob);
        Goldilocks3::add(R, A, B); CHK("add", "ext+ext", e);
        E3 X; set3(X, a); Goldilocks3::add(X, X, B); if (!same(X, e)) c.fail("add", "out=a", a, b, X, e);
        set3(X, b); Goldilocks3::add(X, A, X); if (!same(X, e)) c.fail("add", "out=b", a, b, X, e);
        set3(X, a); Goldilocks3::add(X, X, X); if (!same(X, orc::add3(oa, oa))) c.fail("add", "out=a=b", a, a, X, orc::add3(oa, oa));
        (*c.k_alias)++;
        orc::E3 es = orc::add3(oa, orc::c3(s, 0, 0));
        El se; se.fe = s;
        Goldilocks3::add(R, A, se); CHK("add", "ext+base", es);
        Goldilocks3::add(R, se, A); CHK("add", "base+ext", es);
        const uint64_t su = s;
        Goldilocks3::add(R, A, su); CHK("add", "ext+u64", es);
        set3(X, a); Goldilocks3::add(X, X, se); if (!same(X, es)) c.fail("add", "ext+base:out=a", a, b, X, es);
    }
    // sub / neg
    {
        orc::E3 e = orc::sub3(oa, ob);
        Goldilocks3::sub(R, A, B); CHK("sub", "ext-ext", e);
        E3 X; set3(X, a); Goldilocks3::sub(X, X, B); if (!same(X, e)) c.fail("sub", "out=a", a, b, X, e);
        set3(X, b); Goldilocks3::sub(X, A, X); if (!same(X, e)) c.fail("sub", "out=b", a, b, X, e);
        set3(X, a); Goldilocks3::sub(X, X, X); if (!same(X, orc::c3(0, 0, 0))) c.fail("sub", "out=a=b", a, a, X, orc::c3(0, 0, 0));
        El se; se.fe = s;
        Goldilocks3::sub(R, A, se); CHK("sub", "ext-base", orc::sub3(oa, orc::c3(s, 0, 0)));
        Goldilocks3::sub(R, se, A); CHK("sub", "base-ext", orc::sub3(orc::c3(s, 0, 0), oa));
        uint64_t su = s;
        Goldilocks3::sub(R, A, su); CHK("sub", "ext-u64", orc::sub3(oa, orc::c3(s, 0, 0)));
        set3(X, a); Goldilocks3::sub(X, se, X); if (!same(X, orc::sub3(orc::c3(s, 0, 0), oa))) c.fail("sub", "base-ext:out=b", a, b, X, orc::sub3(orc::c3(s, 0, 0), oa));
        Goldilocks3::neg(R, A); CHK("neg", "ref", orc::neg3(oa));
        set3(X, a); Goldilocks3::neg(X, X); if (!same(X, orc::neg3(oa))) c.fail("neg", "out=a", a, b, X, orc::neg3(oa));
    }
    // mul / square
    {
        orc::E3 e = orc::mul3(oa, ob);
        Goldilocks3::mul(R, A, B); CHK("mul", "ext*ext", e);
        Goldilocks3::mul(&R, &A, &B); CHK("mul", "ext*ext(ptr)", e);
        E3 X; set3(X, a); Goldilocks3::mul(X, X, B); if (!same(X, e)) c.fail("mul", "out=a", a, b, X, e);
        set3(X, b); Goldilocks3::mul(X, A, X); if (!same(X, e)) c.fail("mul", "out=b", a, b, X, e);
        orc::E3 e2 = orc::mul3(oa, oa);
        set3(X, a); Goldilocks3::mul(X, X, X); if (!same(X, e2)) c.fail("mul", "out=a=b", a, a, X, e2);
        Goldilocks3::square(R, A); CHK("square", "ref", e2);
        set3(X, a); Goldilocks3::square(X, X); if (!same(X, e2)) c.fail("square", "out=a", a, a, X, e2);
        El se; se.fe = s;
        orc::E3 es = orc::scal3(oa, orc::canon(s));
        Goldilocks3::mul(R, A, se); CHK("mul", "ext*base", es);
        Goldilocks3::mul(R, se, A); CHK("mul", "base*ext", es);
        Goldilocks3::mul(R, A, (uint64_t)s); CHK("mul", "ext*u64", es);
        set3(X, a); Goldilocks3::mul(X, X, se); if (!same(X, es)) c.fail("mul", "ext*base:out=a", a, b, X, es);
    }
    // div by base element, mulScalar by decimal string (sampled: GMP string parsing is slow)
    if (orc::canon(s) != 0)
    {
        El se; se.fe = s;
        orc::E3 e = orc::scal3(oa, orc::inv(s));
        Goldilocks3::div(R, A, se); CHK("div", "ext/base", e);
        E3 X; set3(X, a); Goldilocks3::div(X, X, se); if (!same(X, e)) c.fail("div", "out=a", a, b, X, e);
    }
    if ((rng.next() & 15) == 0)
    {
        std::string dec = std::to_string((unsigned long long)s);
        if (rng.coin()) dec = "-" + dec;
        uint64_t sv = dec[0] == '-' ? orc::neg(s) : orc::canon(s);
        Goldilocks3::mulScalar(R, A, dec); CHK("mulScalar", "decimal-string", orc::scal3(oa, sv));
        c.rep.cls("forms:mulScalar_string");
    }
    if ((rng.next() & 31) == 0)
    {
        // decimal strings of integers beyond 64 bits (20..39 digits), the neighbourhood of 2^64 and of 10^19 / 10^20, leading zeros
        typedef unsigned __int128 u128;
        static const u128 two64 = (u128)1 << 64;
        u128 ten19 = 10000000000000000000ULL, ten20 = ten19 * 10;
        u128 v;
        switch (rng.below(6))
        {
        case 0: v = two64 - 2 + rng.below(5); break;
        case 1: v = ten20 - 1 - rng.below(3); break;
        case 2: v = ten19 - 2 + rng.below(5); break;
        case 3: v = two64 + s; break;
        case 4: v = (u128)s * rng.next() + rng.below(1000); break;
        default: v = ten20 + rng.below(1ULL << 40); break;
        }
        std::string dec;
        for (u128 q = v; q; q /= 10) dec.insert(dec.begin(), (char)('0' + (int)(q % 10)));
        if (dec.empty()) dec = "0";
        if (rng.below(4) == 0) dec = std::string(1 + rng.below(3), '0') + dec;
        bool negv = rng.below(3) == 0;
        if (negv) dec = "-" + dec;
        uint64_t sv = (uint64_t)(v % (u128)orc::PR);
        if (negv) sv = orc::neg(sv);
        Goldilocks3::mulScalar(R, A, dec); CHK("mulScalar", "decimal-string-beyond-64-bits", orc::scal3(oa, sv));
        c.rep.cls("forms:mulScalar_string_beyond_64_bits");
    }
    // copy / zero / one / conversions
    {
        Goldilocks3::copy(R, A);
        if (R[0].fe != a[0] || R[1].fe != a[1] || R[2].fe != a[2]) c.fail("copy", "ref", a, b, R, oa);
        E3 Y;
        Goldilocks3::copy(&Y, &A);
        if (Y[0].fe != a[0] || Y[1].fe != a[1] || Y[2].fe != a[2]) c.fail("copy", "ptr", a, b, Y, oa);
        uint64_t u[3];
        Goldilocks3::toU64(u, A);
        if (u[0] != oa.c[0] || u[1] != oa.c[1] || u[2] != oa.c[2]) c.fail("toU64", "ref", a, b, A, oa);
        uint64_t in3[3] = {a[0], a[1], a[2]};
        Goldilocks3::fromU64(R, in3); CHK("fromU64", "ref", oa);
    }
    // isOne must hold exactly for (1,0,0)
    {
        bool exp = oa.c[0] == 1 && oa.c[1] == 0 && oa.c[2] == 0;
        if (Goldilocks3::isOne(A) != exp)
            c.rep.violation(std::string("C09:isOne:") + (exp ? "rejects-one" : "accepts-non-one"), J().raw("a", j3(a)).b("expected", exp).done());
        if (exp) c.rep.cls("isOne:true_cases");
    }
#undef CHK
}

static void inv_check(Ctx &c, const uint64_t a[3], const char *family)
{
    c.rep.evaluations++;
    orc::E3 oa = o3(a);
    if (orc::iszero3(oa)) return;
    E3 A, R;
    set3(A, a);
    Goldilocks3::inv(R, A);
    orc::E3 got = orc::c3(R[0].fe, R[1].fe, R[2].fe);
    orc::E3 prod = orc::mul3(oa, got);
    orc::E3 ei = orc::inv3(oa);
    if (!(prod.c[0] == 1 && prod.c[1] == 0 && prod.c[2] == 0) || !orc::eq3(got, ei))
        c.rep.violation("C09:inv:ref:wrong-value", J().str("family", family).raw("a", j3(a)).raw("got", je(R)).raw("expected", vf::jarr_hex(ei.c, 3)).done());
    E3 X;
    set3(X, a);
    Goldilocks3::inv(X, X);
    if (!same(X, ei)) c.rep.violation("C09:inv:out=a:wrong-value", J().str("family", family).raw("a", j3(a)).raw("got", je(X)).done());
    Goldilocks3::inv(&R, &A);
    if (!same(R, ei)) c.rep.violation("C09:inv:ptr:wrong-value", J().str("family", family).raw("a", j3(a)).done());
    int zc = (oa.c[0] == 0) + (oa.c[1] == 0) + (oa.c[2] == 0);
    c.rep.cls(zc == 0 ? "inv:no_zero_coefficient" : (zc == 1 ? "inv:one_zero_coefficient" : "inv:two_zero_coefficients"));
}

static void run(const vf::Args &args, Report &rep)
{
    Ctx c(rep);
    gen::G64 g;
    Rng rng(vf::mix64(args.seed, 0xC09 + args.shard * 9173));
    auto mine = [&](uint64_t i) { return (int)(i % args.nshards) == args.shard; };
    // (1) boundary triples exhaustively over a 12-value set: 12^6 pairs for the binary ops
    {
        const uint64_t V[12] = {0, 1, 2, PP - 1, PP, PP + 1, 0xFFFFFFFFFFFFFFFFULL, 0xFFFFFFFFULL, 0x100000000ULL, (PP - 1) / 2, 0x5555555555555555ULL, 0x8000000000000000ULL};
        uint64_t total = 1;
        for (int i = 0; i < 6; i++) total *= 12;
        uint64_t step = args.getu("boundary_step", 1); // quick: every 3rd pair index offset by the seed
        uint64_t off = step > 1 ? args.seed % step : 0;
        uint64_t cnt = 0;
        for (uint64_t idx = off; idx < total; idx += step)
        {
            if (!mine(idx / step)) continue;
            uint64_t a[3], b[3], t = idx;
            for (int i = 0; i < 3; i++) { a[i] = V[t % 12]; t /= 12; }
            for (int i = 0; i < 3; i++) { b[i] = V[t % 12]; t /= 12; }
            pair_ops(c, a, b, V[(idx / 7) % 12] + (idx % 5 == 0 ? 3 : 0), rng);
            rep.nontrivial(idx);
            if (cnt++ < 2) rep.sample("boundary_triples", J().raw("a", j3(a)).raw("b", j3(b)).done());
        }
        rep.cls("family:boundary_triples_12^6", cnt);
        if (step == 1) rep.cls("family:boundary_triples_exhaustive_shards");
    }
    // (2) mixed random triples
    {
        uint64_t n = args.getu("random", args.thorough() ? 1000000000ULL : 30000000ULL) / args.nshards;
        for (uint64_t t = 0; t < n; t++)
        {
            uint64_t a[3], b[3];
            for (int i = 0; i < 3; i++) { a[i] = g.pick(rng); b[i] = g.pick(rng); }
            if ((t & 7) == 0) { a[1] = 0; if (t & 8) a[2] = 0; }
            pair_ops(c, a, b, g.pick(rng), rng);
            if ((t & 3) == 0) inv_check(c, a, "inv_random");
            if ((t & 63) == 0) rep.nontrivial(vf::mix64(a[0] ^ b[1], a[2] ^ b[0] ^ t));
            if (t < 2) rep.sample("random_triples", J().raw("a", j3(a)).raw("b", j3(b)).done());
        }
        rep.cls("family:random_triples", n);
    }
    // (3) inversion on structured non-zero elements
    {
        uint64_t idx = 0;
        for (uint64_t x : g.fixed)
            for (int pat = 1; pat < 8; pat++)
            {
                if (!mine(idx++)) continue;
                uint64_t a[3] = {(pat & 1) ? x : 0, (pat & 2) ? x + 1 : 0, (pat & 4) ? (x ^ 0x55) : 0};
                inv_check(c, a, "inv_structured");
                uint64_t a2[3] = {(pat & 1) ? 1 : 0, (pat & 2) ? PP - 1 : 0, (pat & 4) ? 1 : 0};
                inv_check(c, a2, "inv_structured");
            }
        rep.cls("family:inv_structured");
    }
    // (4) isOne: (1,0,0) in all eight representation combinations, and elements differing from one in exactly one coefficient
    {
        for (int m = 0; m < 8; m++)
        {
            uint64_t a[3] = {(m & 1) ? PP + 1 : 1, (m & 2) ? PP : 0, (m & 4) ? PP : 0};
            E3 A;
            set3(A, a);
            rep.evaluations++;
            if (!Goldilocks3::isOne(A)) rep.violation("C09:isOne:rejects-one", J().raw("a", j3(a)).done());
            rep.cls("isOne:representations_of_one");
        }
        uint64_t n = args.getu("isone", args.thorough() ? 1000000 : 100000) / args.nshards + 1;
        for (uint64_t t = 0; t < n; t++)
        {
            uint64_t a[3] = {1, 0, 0};
            int k = (int)(t % 3);
            uint64_t v = g.pick(rng);
            if (orc::canon(v) == (k == 0 ? 1 : 0)) v += 2;
            a[k] = v;
            E3 A;
            set3(A, a);
            rep.evaluations++;
            if (Goldilocks3::isOne(A)) rep.violation(std::string("C09:isOne:accepts-non-one:coefficient") + std::to_string(k), J().raw("a", j3(a)).done());
            rep.cls("isOne:one_coefficient_off");
        }
    }
}

// concurrent callers: 8 threads, own operands; extension mul / inv / mulScalar(string) / batchInverse must not share hidden state
static void run_concurrent(const vf::Args &args, Report &rep)
{
    const int T = 8;
    uint64_t n = args.getu("concurrent", args.thorough() ? 2000000ULL : 200000ULL) / args.nshards / T + 1;
    gen::G64 g;
    struct Bad { const char *op = nullptr; uint64_t a[3], b[3]; } bad[T];
    uint64_t seeds[T];
    for (int t = 0; t < T; t++) seeds[t] = vf::mix64(args.seed, 0x09CC + args.shard * 131 + t);
    vf::team(T, [&](int me_) {
        int me = me_;
        Rng q(seeds[me]);
        for (uint64_t t = 0; t < n; t++)
        {
            uint64_t a[3], b[3];
            for (int i = 0; i < 3; i++) { a[i] = g.pick(q); b[i] = g.pick(q); }
            orc::E3 oa = o3(a), ob = o3(b);
            E3 A, B, R;
            set3(A, a); set3(B, b);
            auto flag = [&](const char *op) { if (!bad[me].op) { bad[me].op = op; memcpy(bad[me].a, a, sizeof a); memcpy(bad[me].b, b, sizeof b); } };
            Goldilocks3::mul(R, A, B); if (!same(R, orc::mul3(oa, ob))) flag("mul");
            Goldilocks3::add(R, A, B); if (!same(R, orc::add3(oa, ob))) flag("add");
            Goldilocks3::sub(R, A, B); if (!same(R, orc::sub3(oa, ob))) flag("sub");
            Goldilocks3::square(R, A); if (!same(R, orc::mul3(oa, oa))) flag("square");
            if (!orc::iszero3(oa)) { Goldilocks3::inv(R, A); if (!same(R, orc::inv3(oa))) flag("inv"); }
            if ((t & 7) == 0)
            {
                std::string dec = std::to_string((unsigned long long)b[0]);
                Goldilocks3::mulScalar(R, A, dec); if (!same(R, orc::scal3(oa, orc::canon(b[0])))) flag("mulScalar");
            }
            if ((t & 63) == 0)
            {
                uint64_t src[6 * 3], out[6 * 3];
                for (int k = 0; k < 6; k++) do { for (int j = 0; j < 3; j++) src[3 * k + j] = q.next(); } while (orc::iszero3(orc::c3(src[3 * k], src[3 * k + 1], src[3 * k + 2])));
                Goldilocks3::batchInverse((E3 *)out, (E3 *)src, 6);
                for (int k = 0; k < 6; k++)
                {
                    orc::E3 e = orc::inv3(orc::c3(src[3 * k], src[3 * k + 1], src[3 * k + 2]));
                    if (orc::canon(out[3 * k]) != e.c[0] || orc::canon(out[3 * k + 1]) != e.c[1] || orc::canon(out[3 * k + 2]) != e.c[2]) flag("batchInverse");
                }
            }
        }
    });
    for (int t = 0; t < T; t++)
        if (bad[t].op) rep.violation(std::string("C09:") + bad[t].op + ":concurrent-callers:wrong-value", J().str("op", bad[t].op).raw("a", j3(bad[t].a)).raw("b", j3(bad[t].b)).str("what", "8 threads calling the operation at the same time on their own operands").done());
    rep.evaluations += n * T;
    rep.cls("family:concurrent_callers", n * T);
}

// batch inversion for every length; long lengths in forked children (stack / crash attribution)
static void run_batch(const vf::Args &args, Report &rep)
{
    std::vector<uint64_t> lens;
    for (uint64_t l = 1; l <= 130; l++) lens.push_back(l);
    for (uint64_t l : {1000ULL, 50000ULL, 174762ULL, 174763ULL, 400000ULL}) lens.push_back(l);
    if (args.thorough()) lens.push_back(3000000ULL);
    vf::ForkCfg fc;
    fc.group = 1; fc.case_timeout = 900; fc.nofork = args.nofork; fc.errdir = args.errdir; fc.family = "batchInverse";
    auto mine = [&](uint64_t i) { return (int)(i % args.nshards) == args.shard; };
    gen::G64 g;
    vf::run_forked(rep, lens.size(), fc,
        [&](uint64_t i) { return J().str("op", "batchInverse").u("length", lens[i]).done(); },
        [&](uint64_t i) { return std::string("C09:batchInverse:") + (lens[i] > 150000 ? "length>150000" : (lens[i] > 130 ? "length>130" : "length<=130")); },
        [&](uint64_t i, Report &rp) {
            uint64_t n = lens[i];
            Rng r(vf::mix64(args.seed, n));
            std::unique_ptr<uint64_t[]> src(new uint64_t[3 * n]), res(new uint64_t[3 * n]);
            for (uint64_t k = 0; k < n; k++)
            {
                do { for (int j = 0; j < 3; j++) src[3 * k + j] = (k % 3 == 0) ? g.pick(r) : r.next(); if (k % 11 == 3) { src[3 * k + 1] = 0; src[3 * k + 2] = 0; } }
                while (orc::iszero3(orc::c3(src[3 * k], src[3 * k + 1], src[3 * k + 2])));
            }
            for (int inplace = 0; inplace < 2; inplace++)
            {
                std::unique_ptr<uint64_t[]> work(new uint64_t[3 * n]);
                memcpy(work.get(), src.get(), 24 * n);
                uint64_t *out = inplace ? work.get() : res.get();
                Goldilocks3::batchInverse((E3 *)out, (E3 *)work.get(), n);
                vf::digest("batchInverse", vf::mix64(n, inplace), out, 24 * n);
                rp.evaluations++;
                uint64_t step = n > 2000 ? n / 1500 : 1; // element-wise oracle inversion (sampled for long arrays, always incl. first and last)
                for (uint64_t k = 0; k < n; k += (k + step < n || k == n - 1) ? step : (n - 1 - k))
                {
                    orc::E3 e = orc::inv3(orc::c3(src[3 * k], src[3 * k + 1], src[3 * k + 2]));
                    if (orc::canon(out[3 * k]) != e.c[0] || orc::canon(out[3 * k + 1]) != e.c[1] || orc::canon(out[3 * k + 2]) != e.c[2])
                    {
                        rp.violation(std::string("C09:batchInverse:wrong-value:") + (inplace ? "in-place" : "out-of-place"), J().u("length", n).u("index", k).done());
                        break;
                    }
                    if (k == n - 1) break;
                }
                if (!inplace && memcmp(work.get(), src.get(), 24 * n)) rp.violation("C09:batchInverse:source-modified", J().u("length", n).done());
            }
            rp.cls(n > 150000 ? "batchInverse:beyond_8MiB_of_temporaries" : (n > 130 ? "batchInverse:long" : "batchInverse:every_length_1..130"));
            rp.nontrivial(vf::mix64(n, 0xBA7C));
            if (n == 1 || n == 130 || n == 400000) rp.sample("batchInverse", J().u("length", n).done());
        }, mine);
}

int main(int argc, char **argv)
{
    vf::Args args = vf::parse_args(argc, argv);
    Report rep;
    rep.open(args.prop, args.out);
    run(args, rep);
    run_batch(args, rep);      // forks: must come before the parent starts an OpenMP team
    run_concurrent(args, rep);
    rep.finish();
    return 0;
}
