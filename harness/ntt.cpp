// C03 (NTT = DFT), C04 (INTT exact inverse), C05 (extendPol = LDE on the coset 7<w>), C19 (object reuse histories).
// Also the workload of C12(b,c) (order / thread-count independence) and of the C18 sanitizer builds.
// Oracle: naive DFT / Horner evaluation and an independent recursive FFT (cross-checked against each other).
#include "goldilocks_base_field.hpp"
#include "ntt_goldilocks.hpp"
#include "harness.hpp"
#include <omp.h>
#include "oracle.hpp"
#include "gen.hpp"
#include "arena.hpp"
#include <memory>
#include <set>
#include <unordered_map>

using vf::J;
using vf::Report;
using vf::Rng;
typedef Goldilocks::Element El;
typedef unsigned __int128 u128;
static const uint64_t PP = 0xFFFFFFFF00000001ULL;

extern "C" void verif_omp_set_mode(int mode, uint64_t perm_seed, int force_team) __attribute__((weak));
extern "C" void verif_omp_stats(uint64_t out[5]) __attribute__((weak));

// ------------------------------------------------------------------ event hook (evidence / diagnosis only)
struct Ev { const char *tag; uint64_t a, b, c, d; };
static std::vector<Ev> g_events;
static bool g_record = false;
extern "C" void goldilocks_verif_event(const char *tag, u_int64_t a, u_int64_t b, u_int64_t c, u_int64_t d)
{
    if (g_record && g_events.size() < 4096) g_events.push_back(Ev{tag, a, b, c, d});
}
static std::string events_json()
{
    std::string s = "[";
    for (size_t i = 0; i < g_events.size() && i < 64; i++)
    {
        if (i) s += ",";
        s += "[" + vf::jstr(g_events[i].tag) + "," + vf::u2s(g_events[i].a) + "," + vf::u2s(g_events[i].b) + "," + vf::u2s(g_events[i].c) + "," + vf::u2s(g_events[i].d) + "]";
    }
    return s + "]";
}
static void count_events(Report &rep, const char *kind)
{
    if (g_events.empty()) { rep.cls("hook:no_events_in_call"); return; }
    std::string sched = kind;
    for (auto &e : g_events)
    {
        std::string t = e.tag;
        if (t == "revperm") rep.cls("hook:revperm:branch" + std::to_string(e.a));
        else if (t == "ntt_pass") { rep.cls("hook:ntt_pass:writeback" + std::to_string(e.d)); sched += ":" + std::to_string(e.b) + (e.d ? "w" + std::to_string(e.d) : ""); }
        else if (t == "ntt_land") rep.cls(e.a ? "hook:ntt_land:in_destination" : "hook:ntt_land:needs_copy");
        else if (t == "computeR") rep.cls("hook:computeR");
        else if (t == "extendPol") rep.cls(e.d ? "hook:extendPol:tables_recomputed" : "hook:extendPol:tables_reused");
    }
    uint64_t h = 0;
    for (char ch : sched) h = vf::mix64(h, (uint64_t)ch);
    rep.nontrivial(h ^ 0x5C4ED); // distinct pass schedules observed
}

// ------------------------------------------------------------------ exact-size buffers
struct ExactBuf
{
#if defined(__SANITIZE_ADDRESS__) || defined(VERIF_PLAIN_MALLOC)
    uint64_t *p;
    size_t n;
    ExactBuf(size_t n_, bool) : n(n_) { p = (uint64_t *)malloc(n ? n * 8 : 1); }
    ~ExactBuf() { free(p); }
#else
    arena::GuardBuf<uint64_t> g;
    uint64_t *p;
    size_t n;
    ExactBuf(size_t n_, bool upper) : g(n_, upper, 8), p(g.p), n(n_) {}
#endif
    El *el() { return (El *)p; }
};

// ------------------------------------------------------------------ oracle transforms
static void fft_rec(std::vector<uint64_t> &a, uint64_t w)
{
    size_t n = a.size();
    if (n == 1) return;
    std::vector<uint64_t> ev(n / 2), od(n / 2);
    for (size_t i = 0; i < n / 2; i++) { ev[i] = a[2 * i]; od[i] = a[2 * i + 1]; }
    uint64_t w2 = orc::mul(w, w);
    fft_rec(ev, w2);
    fft_rec(od, w2);
    uint64_t t = 1;
    for (size_t k = 0; k < n / 2; k++)
    {
        uint64_t x = orc::mul(t, od[k]);
        a[k] = orc::add(ev[k], x);
        a[k + n / 2] = orc::sub(ev[k], x);
        t = orc::mul(t, w);
    }
}
static uint64_t g_oracle_naive = 0, g_oracle_fft = 0, g_oracle_horner_cross = 0;
// column transform: forward (inverse=false) or n^-1 * inverse DFT
static void oracle_dft(std::vector<uint64_t> &out, const std::vector<uint64_t> &in, unsigned logn, bool inverse, unsigned naive_max)
{
    if (logn <= naive_max)
    {
        orc::dft_col(out, in, logn, inverse);
        g_oracle_naive++;
        return;
    }
    uint64_t n = (uint64_t)1 << logn;
    uint64_t w = orc::ROOTS[logn];
    if (inverse) w = orc::inv(w);
    out = in;
    for (auto &v : out) v = orc::canon(v);
    fft_rec(out, w);
    if (inverse)
    {
        uint64_t ninv = orc::inv(n % PP);
        for (auto &v : out) v = orc::mul(v, ninv);
    }
    g_oracle_fft++;
    // cross-check the fast oracle against the definition at 8 sampled positions (Horner)
    std::vector<uint64_t> cin(in);
    for (auto &v : cin) v = orc::canon(v);
    uint64_t ninv = inverse ? orc::inv(n % PP) : 1;
    for (int t = 0; t < 8; t++)
    {
        uint64_t k = (t == 0) ? 0 : (t == 1 ? n - 1 : vf::mix64(logn, t) % n);
        uint64_t x = orc::pw(w, k);
        uint64_t v = orc::mul(orc::horner(cin, x), ninv);
        if (v != out[k]) { fprintf(stderr, "oracle self-disagreement (fft vs horner) logn=%u k=%lu\n", logn, (unsigned long)k); abort(); }
        g_oracle_horner_cross++;
    }
}
// LDE oracle for one column: f interpolates in[] on <w_N>, evaluate at 7*w_Next^k
static void oracle_lde(std::vector<uint64_t> &out, const std::vector<uint64_t> &in, unsigned a, unsigned b, unsigned naive_max)
{
    std::vector<uint64_t> coef;
    oracle_dft(coef, in, a, true, naive_max);
    uint64_t next = (uint64_t)1 << b;
    out.assign(next, 0);
    uint64_t wn = orc::ROOTS[b];
    if (b <= naive_max + 1)
    {
        uint64_t x = orc::COSET_SHIFT;
        for (uint64_t k = 0; k < next; k++)
        {
            out[k] = orc::horner(coef, x);
            x = orc::mul(x, wn);
        }
        g_oracle_naive++;
        return;
    }
    std::vector<uint64_t> sc(next, 0);
    uint64_t sh = 1;
    for (size_t j = 0; j < coef.size(); j++) { sc[j] = orc::mul(coef[j], sh); sh = orc::mul(sh, orc::COSET_SHIFT); }
    fft_rec(sc, wn);
    out = sc;
    g_oracle_fft++;
    for (int t = 0; t < 8; t++)
    {
        uint64_t k = (t == 0) ? 0 : (t == 1 ? next - 1 : vf::mix64(b * 64 + a, t) % next);
        uint64_t x = orc::mul(orc::COSET_SHIFT, orc::pw(wn, k));
        if (orc::horner(coef, x) != out[k]) { fprintf(stderr, "oracle self-disagreement (lde)\n"); abort(); }
        g_oracle_horner_cross++;
    }
}

// ------------------------------------------------------------------ configurations
enum Kind { K_NTT = 0, K_INTT = 1, K_EXT = 2 };
static const char *KN[] = {"NTT", "INTT", "extendPol"};
struct Cfg
{
    int kind = 0;
    int S = 0;           // object maxDomain = 2^S  (S<0: maxDomain 0)
    int d = 0;           // size 2^d (d<0: size 0); N for extendPol
    int e = 0;           // N_ext = 2^e (extendPol)
    uint64_t ncols = 1, nphase = 3, nblock = 1;
    int buffer = 0;      // 0 NULL, 1 caller exact-size
    int alias = 1;       // 0 dst==src, 1 dst other, 2 dst NULL (extendPol: 0 output==input, 1 distinct)
    unsigned threads = 1;
    int input = 0;       // 0 uniform columns, 1 boundary / non-canonical, 2 identity matrix (ncols = n)
    int preuse = 0;      // 1: the object has already served an extendPol (same or larger N) and a transform before this call
    std::string json() const
    {
        return J().str("op", KN[kind]).i("S", S).i("d", d).i("e", e).u("ncols", ncols).h("nphase", nphase).h("nblock", nblock).i("buffer", buffer).i("alias", alias).u("threads", threads).i("input", input).i("preuse", preuse).done();
    }
    // configuration class for violation keys: everything but data
    std::string cls() const
    {
        auto sm = [](uint64_t v) { return v > 1000 ? std::string("huge") : std::to_string(v); };
        uint64_t effp = nphase;
        int dd = kind == K_EXT ? e : d;
        if (effp < 1 || dd <= 0) effp = 1; else if (effp > (uint64_t)dd) effp = dd;
        uint64_t effb = nblock < 1 ? 1 : (nblock > ncols ? ncols : nblock);
        return std::string(KN[kind]) + ":S" + std::to_string(S) + ":d" + std::to_string(d) + (kind == K_EXT ? ":e" + std::to_string(e) : "") + ":phase" + (effp % 2 ? "odd" : "even") + ":blocks" + (effb > 1 ? "N" : "1") + ":buf" + std::to_string(buffer) + ":alias" + std::to_string(alias) + ":in" + std::to_string(input) + (preuse ? ":preused" : "") + (ncols == 0 ? ":ncols0" : "") + "(nphase=" + sm(nphase) + ",nblock=" + sm(nblock) + ",ncols=" + sm(ncols) + ",thr=" + std::to_string(threads) + ")";
    }
};

struct InKey
{
    int kind, d, e, input;
    uint64_t ncols;
    bool operator<(const InKey &o) const { return std::tie(kind, d, e, input, ncols) < std::tie(o.kind, o.d, o.e, o.input, o.ncols); }
};
struct InOut
{
    std::vector<uint64_t> in;  // row-major rows x ncols
    std::vector<uint64_t> out; // expected, canonical, row-major
};

struct Engine
{
    Report *rep;
    uint64_t seed;
    unsigned naive_max;
    std::map<InKey, std::shared_ptr<InOut>> cache;
    size_t cache_cells = 0;
    gen::G64 g;
    Engine(uint64_t s, unsigned nm) : rep(nullptr), seed(s), naive_max(nm) {}

    std::shared_ptr<InOut> get(int kind, int d, int e, int input, uint64_t ncols)
    {
        InKey k{kind, d, e, input, ncols};
        auto it = cache.find(k);
        if (it != cache.end()) return it->second;
        if (cache_cells > (size_t)48 << 20) { cache.clear(); cache_cells = 0; }
        auto io = std::make_shared<InOut>();
        uint64_t n = (uint64_t)1 << d;
        uint64_t nout = kind == K_EXT ? (uint64_t)1 << e : n;
        Rng r(vf::mix64(seed, vf::mix64((uint64_t)kind * 1000003 + d * 1009 + e * 31 + input, ncols)));
        io->in.resize(n * ncols);
        for (uint64_t i = 0; i < n; i++)
            for (uint64_t c = 0; c < ncols; c++)
            {
                uint64_t v;
                if (input == 0) v = r.next();
                else if (input == 1) v = r.below(3) ? g.fixed[r.below(g.fixed.size())] : g.pick(r);
                else if (input == 3) v = 0;
                else v = (i == c) ? 1 : 0;
                io->in[i * ncols + c] = v;
            }
        if (input == 3)
        {
            // structured data: the RESULT (INTT) resp. the INPUT (NTT) resp. the interpolated polynomial (extendPol) is sparse - whole
            // rows that are exactly zero, in the lower and in the upper half, constants, low degree - with small / boundary non-zero values
            std::vector<std::vector<uint64_t>> sp(ncols, std::vector<uint64_t>(n, 0));
            int style = (int)r.below(4);
            std::vector<uint64_t> rows;
            if (style == 0) rows = {0};                                                  // constants
            else if (style == 1) for (uint64_t k = 0; k < (n + 1) / 2; k++) { if (r.coin()) rows.push_back(k); } // degree < n/2
            else if (style == 2) { rows.push_back(r.below(n)); if (n > 2) rows.push_back(n / 2 + r.below(n / 2)); }
            else for (uint64_t k = 0; k < n; k++) { if (r.below(4) == 0) rows.push_back(k); }
            for (uint64_t c = 0; c < ncols; c++)
                for (uint64_t k : rows) sp[c][k] = r.coin() ? 1 + r.below(3) : (r.coin() ? PP - 1 - r.below(3) : g.pick(r));
            std::vector<uint64_t> o;
            for (uint64_t c = 0; c < ncols; c++)
            {
                if (kind == K_NTT) o = sp[c];
                else oracle_dft(o, sp[c], d, false, naive_max); // the forward transform of the sparse vector: INTT / interpolation gives it back
                for (uint64_t i = 0; i < n; i++) io->in[i * ncols + c] = orc::canon(o[i]);
            }
        }
        io->out.resize(nout * ncols);
        std::vector<uint64_t> col(n), o;
        for (uint64_t c = 0; c < ncols; c++)
        {
            for (uint64_t i = 0; i < n; i++) col[i] = io->in[i * ncols + c];
            if (kind == K_EXT) oracle_lde(o, col, d, e, naive_max);
            else oracle_dft(o, col, d, kind == K_INTT, naive_max);
            for (uint64_t i = 0; i < nout; i++) io->out[i * ncols + c] = o[i];
        }
        cache_cells += io->in.size() + io->out.size();
        cache[k] = io;
        return io;
    }

    // earlier use of the object: an extendPol with N = this call's size (or the object's full domain) and a forward transform
    static void preuse(NTT_Goldilocks &ntt, const Cfg &c)
    {
        bool rec = g_record;
        g_record = false;
        uint64_t n1 = c.kind == K_EXT ? (uint64_t)1 << c.S : (uint64_t)1 << c.d;
        std::vector<uint64_t> a(2 * n1 * 2), b(2 * n1 * 2);
        for (size_t i = 0; i < a.size(); i++) a[i] = 0x1234567 * (i + 1);
        ntt.extendPol((El *)b.data(), (El *)a.data(), 2 * n1, n1, 2);
        ntt.NTT((El *)b.data(), (El *)a.data(), n1, 2);
        g_record = rec;
    }
    // execute one configuration against the oracle; returns true if it held
    bool run(const Cfg &c, Report &rp, NTT_Goldilocks *shared = nullptr, const char *keyprefix = nullptr)
    {
        rp.evaluations++;
        const char *prop = keyprefix ? keyprefix : (c.kind == K_NTT ? "C03" : (c.kind == K_INTT ? "C04" : "C05"));
        uint64_t n = c.d < 0 ? 0 : (uint64_t)1 << c.d;
        uint64_t next = c.kind == K_EXT ? (uint64_t)1 << c.e : n;
        uint64_t ncols = c.ncols;
        static const uint64_t SENT = 0xC0FFEE00C0FFEE11ULL;
        // ---- no-op configurations: size 0 or zero columns
        if (n == 0 || ncols == 0)
        {
            uint64_t rows = n == 0 ? 4 : n;
            uint64_t cols = ncols == 0 ? 3 : ncols;
            ExactBuf src(rows * cols, true), dst(rows * cols, false);
            for (uint64_t i = 0; i < rows * cols; i++) { src.p[i] = SENT + i; dst.p[i] = SENT ^ i; }
            std::unique_ptr<NTT_Goldilocks> own;
            NTT_Goldilocks *ntt = shared;
            if (!ntt) { own.reset(new NTT_Goldilocks(c.S < 0 ? 0 : (uint64_t)1 << c.S, c.threads)); ntt = own.get(); }
            El *d = c.alias == 0 ? src.el() : (c.alias == 1 ? dst.el() : NULL);
            if (c.kind == K_NTT) ntt->NTT(d, src.el(), n, ncols, NULL, c.nphase, c.nblock);
            else ntt->INTT(d, src.el(), n, ncols, NULL, c.nphase, c.nblock);
            bool ok = true;
            for (uint64_t i = 0; i < rows * cols; i++) if (src.p[i] != SENT + i || dst.p[i] != (SENT ^ i)) ok = false;
            if (!ok) rp.violation(std::string(prop) + ":" + c.cls() + ":noop-has-effect", J().raw("cfg", c.json()).done());
            rp.cls(n == 0 ? "cfg:size_zero_noop" : "cfg:zero_columns_noop");
            return ok;
        }
        std::shared_ptr<InOut> io = get(c.kind, c.d, c.e, c.input, ncols);
        // effective parameters for buffer sizing (same arithmetic the property implies: clamp)
        uint64_t effb = c.nblock < 1 ? 1 : (c.nblock > ncols ? ncols : c.nblock);
        uint64_t ncols_alloc = ncols / effb + (ncols % effb ? 1 : 0);
        bool ok = true;
        g_events.clear();
        g_record = true;
        if (c.kind != K_EXT)
        {
            ExactBuf src(n * ncols, (c.threads + c.d) & 1);
            memcpy(src.p, io->in.data(), n * ncols * 8);
            std::unique_ptr<ExactBuf> dstb, bufb;
            if (c.alias == 1) { dstb.reset(new ExactBuf(n * ncols, !((c.threads + c.d) & 1))); for (uint64_t i = 0; i < n * ncols; i++) dstb->p[i] = SENT; }
            // caller scratch: size*ncols elements, the extent the repository's own callers and extendPol provide
            if (c.buffer) { bufb.reset(new ExactBuf(n * ncols, c.nphase & 1)); for (uint64_t i = 0; i < n * ncols; i++) bufb->p[i] = SENT; }
            std::unique_ptr<NTT_Goldilocks> own;
            NTT_Goldilocks *ntt = shared;
            if (!ntt) { own.reset(new NTT_Goldilocks((uint64_t)1 << c.S, c.threads)); ntt = own.get(); if (c.preuse) preuse(*ntt, c); }
            El *d = c.alias == 0 ? src.el() : (c.alias == 1 ? dstb->el() : NULL);
            El *bf = c.buffer ? bufb->el() : NULL;
            if (c.kind == K_NTT) ntt->NTT(d, src.el(), n, ncols, bf, c.nphase, c.nblock);
            else ntt->INTT(d, src.el(), n, ncols, bf, c.nphase, c.nblock);
            g_record = false;
            uint64_t *res = c.alias == 1 ? dstb->p : src.p;
            vf::digest(std::string(KN[c.kind]) + ":d" + std::to_string(c.d), vf::mix64(vf::mix64(c.S * 64 + c.d, c.ncols * 8 + c.buffer * 4 + c.alias), vf::mix64(c.nphase, c.nblock)), res, n * ncols * 8);
            for (uint64_t i = 0; i < n * ncols && ok; i++)
                if (orc::canon(res[i]) != io->out[i])
                {
                    ok = false;
                    rp.violation(std::string(prop) + ":" + c.cls() + ":wrong-value",
                                 J().raw("cfg", c.json()).u("row", i / ncols).u("col", i % ncols).h("got", res[i]).h("expected", io->out[i]).raw("events", events_json()).done());
                }
            if (c.alias == 1 && memcmp(src.p, io->in.data(), n * ncols * 8) != 0)
            {
                ok = false;
                rp.violation(std::string(prop) + ":" + c.cls() + ":source-modified", J().raw("cfg", c.json()).raw("events", events_json()).done());
            }
        }
        else
        {
            bool inplace = c.alias == 0;
            ExactBuf in(inplace ? next * ncols : n * ncols, (c.threads + c.e) & 1);
            memcpy(in.p, io->in.data(), n * ncols * 8);
#if !defined(VERIF_PLAIN_MALLOC)
            for (uint64_t i = n * ncols; i < in.n; i++) in.p[i] = SENT + i; // garbage beyond the input rows must not matter
#endif      // memcheck / fill-differential builds leave those rows uninitialised: a read that matters is then seen by the tool
            std::unique_ptr<ExactBuf> outb, bufb;
            if (!inplace) { outb.reset(new ExactBuf(next * ncols, !((c.threads + c.e) & 1))); for (uint64_t i = 0; i < next * ncols; i++) outb->p[i] = SENT; }
            if (c.buffer) { bufb.reset(new ExactBuf(next * ncols, c.nphase & 1)); for (uint64_t i = 0; i < next * ncols; i++) bufb->p[i] = SENT; }
            std::unique_ptr<NTT_Goldilocks> own;
            NTT_Goldilocks *ntt = shared;
            if (!ntt) { own.reset(new NTT_Goldilocks((uint64_t)1 << c.S, c.threads)); ntt = own.get(); if (c.preuse) preuse(*ntt, c); }
            El *o = inplace ? in.el() : outb->el();
            ntt->extendPol(o, in.el(), next, n, ncols, c.buffer ? bufb->el() : NULL, c.nphase, c.nblock);
            g_record = false;
            uint64_t *res = (uint64_t *)o;
            vf::digest(std::string(KN[c.kind]) + ":d" + std::to_string(c.d) + ":e" + std::to_string(c.e), vf::mix64(vf::mix64(c.S * 64 + c.d, c.ncols * 8 + c.buffer * 4 + c.alias), vf::mix64(c.nphase, c.nblock)), res, next * ncols * 8);
            for (uint64_t i = 0; i < next * ncols && ok; i++)
                if (orc::canon(res[i]) != io->out[i])
                {
                    ok = false;
                    rp.violation(std::string(prop) + ":" + c.cls() + ":wrong-value",
                                 J().raw("cfg", c.json()).u("row", i / ncols).u("col", i % ncols).h("got", res[i]).h("expected", io->out[i]).raw("events", events_json()).done());
                }
            if (!inplace && memcmp(in.p, io->in.data(), n * ncols * 8) != 0)
            {
                ok = false;
                rp.violation(std::string(prop) + ":" + c.cls() + ":source-modified", J().raw("cfg", c.json()).done());
            }
        }
        count_events(rp, KN[c.kind]);
        // coverage classes
        {
            int dd = c.kind == K_EXT ? c.e : c.d;
            uint64_t effp = c.nphase;
            if (effp < 1 || dd == 0) effp = 1; else if (effp > (uint64_t)dd) effp = dd;
            rp.cls(std::string("cfg:") + KN[c.kind]);
            rp.cls(effp % 2 ? "cfg:odd_effective_phases" : "cfg:even_effective_phases");
            if (c.nphase > (uint64_t)dd || c.nphase < 1) rp.cls("cfg:nphase_clamped");
            if (c.nblock > ncols || c.nblock < 1) rp.cls("cfg:nblock_clamped");
            if (effb > 1) rp.cls(ncols % effb ? "cfg:blocked_uneven" : "cfg:blocked_even");
            if (c.kind != K_EXT && c.S > c.d) rp.cls("cfg:size_below_object_domain");
            if (c.buffer) rp.cls("cfg:caller_buffer");
            rp.cls(std::string("cfg:alias") + std::to_string(c.alias));
            if (c.d == 0) rp.cls("cfg:size_one");
            if (c.kind == K_EXT && c.e == c.d) rp.cls("cfg:extend_same_size");
            if (c.kind == K_EXT && effp % 2 == 0 && effb == 1 && c.e > c.d) rp.cls("cfg:extend_onsite_zero_padding");
            if (c.input == 2) rp.cls("cfg:identity_matrix_input");
            if (c.input == 1) rp.cls("cfg:boundary_input");
            if (c.input == 3) rp.cls("cfg:sparse_structured_input");
            if (c.preuse) rp.cls("cfg:object_used_before");
        }
        return ok;
    }
};

// ------------------------------------------------------------------ grids
static std::vector<uint64_t> dedupe(std::vector<uint64_t> v)
{
    std::vector<uint64_t> o;
    for (uint64_t x : v) if (std::find(o.begin(), o.end(), x) == o.end()) o.push_back(x);
    return o;
}
static const uint64_t NCOLS_SET[] = {0, 1, 2, 3, 4, 5, 7, 8, 9, 16, 17, 33};
static const unsigned THREADS_SET[] = {1, 2, 3, 4, 8, 16, 33};

// forward/inverse grid; thin: keep only a pairwise-ish subset (by hash) for the quick tier
static void build_grid(std::vector<Cfg> &out, int kind, int Smax, int dmin_large, int dmax_large, uint64_t nlarge, uint64_t seed, uint64_t thin)
{
    for (int S = 0; S <= Smax; S++)
        for (int d = 0; d <= S; d++)
            for (uint64_t ncols : NCOLS_SET)
            {
                std::vector<uint64_t> phases;
                for (int p = 0; p <= d + 2; p++) phases.push_back(p);
                phases.push_back(1ULL << 63); phases.push_back(~0ULL);
                std::vector<uint64_t> blocks = dedupe({0, 1, 2, 3, ncols ? ncols - 1 : 0, ncols, ncols + 1, ~0ULL});
                for (uint64_t ph : phases)
                    for (uint64_t nb : blocks)
                        for (int buffer = 0; buffer < 2; buffer++)
                            for (int alias = 0; alias < 3; alias++)
                            {
                                // the thread count only changes chunking: rotate it through the set instead of multiplying the grid
                                uint64_t hsh = vf::mix64(vf::mix64(S * 131 + d, ncols * 977 + ph), nb * 31 + buffer * 7 + alias + kind * 1000);
                                if (thin > 1 && hsh % thin) continue;
                                Cfg c;
                                c.kind = kind; c.S = S; c.d = d; c.ncols = ncols; c.nphase = ph; c.nblock = nb; c.buffer = buffer; c.alias = alias;
                                c.threads = THREADS_SET[hsh / 7 % 7];
                                c.input = (hsh / 49) % 4 == 0 ? 1 : ((hsh / 49) % 4 == 1 ? 3 : 0);
                                c.preuse = (hsh / 343) % 6 == 0 && d >= 0 ? 1 : 0;
                                out.push_back(c);
                            }
            }
    // all thread counts on a slice
    for (int S = 1; S <= std::min(Smax, 5); S++)
        for (unsigned th : THREADS_SET)
            for (uint64_t ncols : {1ULL, 5ULL})
                for (uint64_t nb : {1ULL, 2ULL})
                    for (uint64_t ph : {1ULL, 2ULL, 3ULL})
                    {
                        Cfg c;
                        c.kind = kind; c.S = S; c.d = S; c.ncols = ncols; c.nphase = ph; c.nblock = nb; c.buffer = 0; c.alias = 1; c.threads = th;
                        out.push_back(c);
                    }
    // identity matrices (output must be the DFT matrix itself), n <= 64
    for (int d = 0; d <= std::min(6, Smax + 2); d++)
        for (uint64_t ph : {0ULL, 2ULL, 3ULL})
            for (uint64_t nb : {1ULL, 3ULL})
            {
                Cfg c;
                c.kind = kind; c.S = d + (ph == 2 ? 1 : 0); c.d = d; c.ncols = 1ULL << d; c.nphase = ph; c.nblock = nb; c.alias = (int)(ph % 3); c.input = 2; c.threads = 3;
                out.push_back(c);
            }
    // size 0 / maxDomain 0
    for (uint64_t ncols : {0ULL, 1ULL, 3ULL})
        for (int alias = 0; alias < 3; alias++)
        {
            Cfg c;
            c.kind = kind; c.S = 3; c.d = -1; c.ncols = ncols; c.alias = alias;
            out.push_back(c);
            c.S = -1;
            out.push_back(c);
        }
    // sampled large configurations
    Rng r(vf::mix64(seed, 0x1A26E + kind));
    for (uint64_t t = 0; t < nlarge; t++)
    {
        Cfg c;
        c.kind = kind;
        c.d = dmin_large + (int)r.below(dmax_large - dmin_large + 1);
        c.S = c.d + (r.below(3) == 0 ? (int)r.below(3) : 0);
        static const uint64_t NC[] = {1, 2, 3, 5, 8, 9, 17};
        c.ncols = NC[r.below(c.d > 16 ? 3 : 7)];
        uint64_t pr = r.below(6);
        c.nphase = pr == 0 ? ~0ULL : (pr == 1 ? 0 : 1 + r.below(c.d + 2));
        uint64_t br = r.below(6);
        c.nblock = br == 0 ? ~0ULL : (br == 1 ? 0 : 1 + r.below(c.ncols + 1));
        c.buffer = (int)r.below(2); c.alias = (int)r.below(3); c.threads = THREADS_SET[r.below(7)];
        c.input = r.below(5) == 0 ? 1 : (r.below(5) == 0 ? 3 : 0);
        out.push_back(c);
    }
}

static void build_ext_grid(std::vector<Cfg> &out, int emax, int elarge_min, int elarge_max, uint64_t nlarge, uint64_t seed, uint64_t thin)
{
    static const uint64_t NC[] = {1, 2, 3, 5, 8, 9, 17};
    for (int e = 0; e <= emax; e++)
        for (int a = 0; a <= e; a++)
            for (uint64_t ncols : NC)
            {
                std::vector<uint64_t> phases;
                for (int p = 0; p <= e + 2; p++) phases.push_back(p);
                phases.push_back(1ULL << 63); phases.push_back(~0ULL);
                std::vector<uint64_t> blocks = dedupe({0, 1, 2, 3, ncols - 1, ncols, ncols + 1, ~0ULL});
                for (uint64_t ph : phases)
                    for (uint64_t nb : blocks)
                        for (int buffer = 0; buffer < 2; buffer++)
                            for (int alias = 0; alias < 2; alias++)
                                for (int sx = 0; sx < 2; sx++)
                                {
                                    uint64_t hsh = vf::mix64(vf::mix64(e * 131 + a, ncols * 977 + ph), nb * 31 + buffer * 7 + alias + sx * 3 + 5000);
                                    if (thin > 1 && hsh % thin) continue;
                                    Cfg c;
                                    c.kind = K_EXT; c.d = a; c.e = e; c.S = a + sx * (1 + (int)(hsh % 2)); c.ncols = ncols; c.nphase = ph; c.nblock = nb; c.buffer = buffer; c.alias = alias;
                                    c.threads = THREADS_SET[hsh / 7 % 7];
                                    c.input = (hsh / 49) % 4 == 0 ? 1 : ((hsh / 49) % 4 == 1 ? 3 : 0);
                                    c.preuse = (hsh / 343) % 6 == 0 ? 1 : 0;
                                    out.push_back(c);
                                }
            }
    Rng r(vf::mix64(seed, 0xE87));
    for (uint64_t t = 0; t < nlarge; t++)
    {
        Cfg c;
        c.kind = K_EXT;
        c.e = elarge_min + (int)r.below(elarge_max - elarge_min + 1);
        c.d = c.e - (int)r.below(std::min(c.e, 4) + 1);
        c.S = c.d + (r.below(3) == 0 ? 1 : 0);
        c.ncols = NC[r.below(c.e > 16 ? 3 : 7)];
        uint64_t pr = r.below(6);
        c.nphase = pr == 0 ? ~0ULL : (pr == 1 ? 0 : 1 + r.below(c.e + 2));
        uint64_t br = r.below(6);
        c.nblock = br == 0 ? ~0ULL : (br == 1 ? 0 : 1 + r.below(c.ncols + 1));
        c.buffer = (int)r.below(2); c.alias = (int)r.below(2); c.threads = THREADS_SET[r.below(7)];
        c.input = r.below(5) == 0 ? 1 : (r.below(5) == 0 ? 3 : 0);
        out.push_back(c);
    }
}

static void shim_mode_for_case(const vf::Args &args, uint64_t i)
{
    if (verif_omp_set_mode)
    {
        std::string m = args.get("omp", "seq");
        if (m == "seq") verif_omp_set_mode(1, vf::mix64(args.seed, i) | 1, 0);
        else if (m == "seq-identity") verif_omp_set_mode(1, 0, 0);
        else verif_omp_set_mode(0, vf::mix64(args.seed, i), 0);
    }
}

static void run_cfgs(const vf::Args &args, Report &rep, Engine &eng, std::vector<Cfg> &cfgs, const char *family)
{
    // shard by input key so that the oracle cache is effective; order by key inside the shard
    std::vector<uint64_t> mineidx;
    for (uint64_t i = 0; i < cfgs.size(); i++)
    {
        const Cfg &c = cfgs[i];
        uint64_t kh = vf::mix64(vf::mix64(c.kind * 100 + c.d + 50, c.e * 7 + c.input), c.ncols);
        uint64_t slice = args.getu("slice", 1); // run only every slice-th configuration (real-thread slices)
        if ((int)(kh % args.nshards) == args.shard && (slice <= 1 || vf::mix64(i, 77) % slice == 0)) mineidx.push_back(i);
    }
    std::stable_sort(mineidx.begin(), mineidx.end(), [&](uint64_t x, uint64_t y) {
        const Cfg &a = cfgs[x], &b = cfgs[y];
        return std::tie(a.kind, a.d, a.e, a.input, a.ncols) < std::tie(b.kind, b.d, b.e, b.input, b.ncols);
    });
    vf::ForkCfg fc;
    fc.group = args.getu("group", 512); fc.case_timeout = args.thorough() ? 900 : 180; fc.nofork = args.nofork; fc.errdir = args.errdir; fc.family = family;
    int sampled = 0;
    vf::run_forked(rep, mineidx.size(), fc,
        [&](uint64_t i) { return cfgs[mineidx[i]].json(); },
        [&](uint64_t i) { const Cfg &c = cfgs[mineidx[i]]; return std::string(c.kind == K_NTT ? "C03" : (c.kind == K_INTT ? "C04" : "C05")) + ":" + c.cls(); },
        [&](uint64_t i, Report &r) {
            const Cfg &c = cfgs[mineidx[i]];
            shim_mode_for_case(args, mineidx[i]);
            eng.run(c, r);
            uint64_t h = vf::mix64(vf::mix64(c.kind * 64 + c.S, c.d * 64 + c.e), vf::mix64(c.ncols * 1000 + c.buffer * 10 + c.alias, vf::mix64(c.nphase, c.nblock)));
            r.nontrivial(h);
            if (sampled < 3 && (i % 97) == 0) { r.sample(family, c.json()); sampled++; }
        });
    rep.cls(std::string("family:") + family, mineidx.size());
}


// callers that are members of an OpenMP team of their own: T threads of a `#pragma omp parallel` region, each with its own object,
// own buffers and own configuration, call the library at the same time (the library's regions are then nested regions).
// Only with the real runtime (the stand-in serves the library's regions, not the harness's).
static void run_omp_callers(const vf::Args &args, Report &rep, Engine &eng, int kind)
{
    if (verif_omp_set_mode || !args.getu("ompcallers", 1)) return;
    uint64_t rounds = args.getu("ompcaller_rounds", args.thorough() ? 400 : 40);
    vf::ForkCfg fc;
    fc.group = 8; fc.case_timeout = 60; fc.stop_on_hang = true; fc.nofork = args.nofork; fc.errdir = args.errdir; fc.family = "omp_team_callers";
    std::vector<uint64_t> mine;
    for (uint64_t r = 0; r < rounds; r++) if ((int)(r % args.nshards) == args.shard) mine.push_back(r);
    const char *prop = kind == K_NTT ? "C03" : (kind == K_INTT ? "C04" : "C05");
    vf::run_forked(rep, mine.size(), fc,
        [&](uint64_t i) { return J().str("op", "callers inside an OpenMP team").str("kind", KN[kind]).u("round", mine[i]).done(); },
        [&](uint64_t) { return std::string(prop) + ":" + KN[kind] + ":callers-inside-an-OpenMP-team"; },
        [&](uint64_t i, Report &r) {
            const int T = 2 + (int)(mine[i] % 3); // 2..4 callers
            Rng q(vf::mix64(args.seed, 0x0CA11 + mine[i] * 131 + kind));
            std::vector<Cfg> cf(T);
            std::vector<std::shared_ptr<InOut>> io(T);
            for (int t = 0; t < T; t++)
            {
                Cfg &c = cf[t];
                c.kind = kind;
                c.d = 1 + (int)q.below(8);
                c.e = kind == K_EXT ? c.d + (int)q.below(3) : c.d;
                c.S = (kind == K_EXT ? c.d : c.d) + (int)q.below(2);
                static const uint64_t NC[] = {1, 3, 5, 6, 8};
                c.ncols = NC[q.below(5)];
                c.nphase = 1 + q.below(4);
                c.nblock = 1 + q.below(3);
                c.alias = (int)q.below(2);
                c.threads = 1 + (unsigned)q.below(4);
                c.input = q.coin() ? 3 : (int)q.below(2);
                io[t] = eng.get(kind, c.d, c.e, c.input, c.ncols);
            }
            g_record = false;
            std::vector<int> bad(T, 0);
            std::vector<uint64_t> badpos(T, 0), badgot(T, 0);
            auto member = [&](int me) {
                {
                    const Cfg &c = cf[me];
                    uint64_t n = (uint64_t)1 << c.d, next = kind == K_EXT ? (uint64_t)1 << c.e : n;
                    std::vector<uint64_t> src(next * c.ncols + 8, 0x0DDBA11ULL), dst(next * c.ncols + 8, 0x0DDBA11ULL);
                    memcpy(src.data(), io[me]->in.data(), n * c.ncols * 8);
                    NTT_Goldilocks ntt((uint64_t)1 << c.S, c.threads);
                    El *d = c.alias == 0 ? (El *)src.data() : (El *)dst.data();
                    if (kind == K_NTT) ntt.NTT(d, (El *)src.data(), n, c.ncols, NULL, c.nphase, c.nblock);
                    else if (kind == K_INTT) ntt.INTT(d, (El *)src.data(), n, c.ncols, NULL, c.nphase, c.nblock);
                    else ntt.extendPol(d, (El *)src.data(), next, n, c.ncols, NULL, c.nphase, c.nblock);
                    const uint64_t *o = (const uint64_t *)d;
                    for (uint64_t k = 0; k < next * c.ncols; k++)
                        if (orc::canon(o[k]) != io[me]->out[k]) { bad[me] = 1; badpos[me] = k; badgot[me] = o[k]; break; }
                }
            };
            // even rounds: the callers are the members of an OpenMP team; odd rounds: plain threads released together
            bool plain = mine[i] & 1;
            if (plain) vf::team(T, member);
            else
            {
#pragma omp parallel num_threads(T)
                {
                    int me = omp_get_thread_num();
                    if (me < T) member(me);
                }
            }
            for (int t = 0; t < T; t++)
                if (bad[t])
                    r.violation(std::string(prop) + ":" + KN[kind] + (plain ? ":plain-thread-callers:wrong-value" : ":callers-inside-an-OpenMP-team:wrong-value"),
                                J().raw("cfg", cf[t].json()).i("team_of_callers", T).i("caller", t).u("first_bad_position", badpos[t]).h("got", badgot[t]).h("expected", io[t]->out[badpos[t]]).done());
            r.evaluations += T;
            r.cls(plain ? "family:plain_thread_callers" : "family:callers_inside_an_OpenMP_team", T);
            r.nontrivial(vf::mix64(mine[i], 0xCA11));
        });
}

// linearity / data-independence monitor: T(x) + T(y) == T(x+y) on the library itself
static void run_linearity_body(const vf::Args &args, Report &rep, int kind, int dmax);
// the parent process must never start an OpenMP team (a fork() after that would deadlock the children in libgomp)
static void run_linearity(const vf::Args &args, Report &rep, int kind, int dmax)
{
    vf::ForkCfg fc;
    fc.group = 1; fc.case_timeout = 900; fc.nofork = args.nofork; fc.errdir = args.errdir; fc.family = "linearity";
    vf::run_forked(rep, 1, fc, [&](uint64_t) { return J().str("op", "linearity monitor").str("kind", KN[kind]).done(); },
                   [&](uint64_t) { return std::string(kind == K_NTT ? "C03" : (kind == K_INTT ? "C04" : "C05")) + ":linearity"; },
                   [&](uint64_t, Report &r) { run_linearity_body(args, r, kind, dmax); });
}
static void run_linearity_body(const vf::Args &args, Report &rep, int kind, int dmax)
{
    Rng r(vf::mix64(args.seed, 0x11AE + kind + args.shard * 17));
    uint64_t trials = args.getu("linearity", args.thorough() ? 3000 : 300) / args.nshards + 1;
    for (uint64_t t = 0; t < trials; t++)
    {
        int d = (int)r.below(dmax + 1), e = d + (int)r.below(3);
        uint64_t ncols = 1 + r.below(5), n = 1ULL << d, next = kind == K_EXT ? 1ULL << e : n;
        uint64_t nphase = r.below(d + 3), nblock = r.below(ncols + 2);
        std::vector<uint64_t> x(next * ncols), y(next * ncols), z(next * ncols);
        for (uint64_t i = 0; i < n * ncols; i++) { x[i] = r.next(); y[i] = r.next(); z[i] = orc::add(x[i], y[i]); }
        NTT_Goldilocks ntt(1ULL << d, 1 + (unsigned)r.below(4));
        auto T = [&](std::vector<uint64_t> &v) {
            if (kind == K_NTT) ntt.NTT((El *)v.data(), (El *)v.data(), n, ncols, NULL, nphase, nblock);
            else if (kind == K_INTT) ntt.INTT((El *)v.data(), (El *)v.data(), n, ncols, NULL, nphase, nblock);
            else ntt.extendPol((El *)v.data(), (El *)v.data(), next, n, ncols, NULL, nphase, nblock);
        };
        T(x); T(y); T(z);
        rep.evaluations++;
        for (uint64_t i = 0; i < next * ncols; i++)
            if (orc::add(x[i], y[i]) != orc::canon(z[i]))
            {
                rep.violation(std::string(kind == K_NTT ? "C03" : (kind == K_INTT ? "C04" : "C05")) + ":linearity:" + KN[kind], J().i("d", d).i("e", e).u("ncols", ncols).u("nphase", nphase).u("nblock", nblock).u("index", i).done());
                break;
            }
        rep.cls("monitor:linearity_triples");
    }
}

// root table monitor: every entry of the CPU table and the coset shift against the pinned values
static void run_roots(Report &rep, const char *prop)
{
    if (!orc::roots_selfcheck()) { fprintf(stderr, "oracle root table failed its own order/chain check\n"); abort(); }
    for (int i = 0; i < 33; i++)
    {
        rep.evaluations++;
        El w1 = Goldilocks::w(i), w2;
        Goldilocks::w(w2, i);
        if (orc::canon(w1.fe) != orc::ROOTS[i] || orc::canon(w2.fe) != orc::ROOTS[i])
            rep.violation(std::string(prop) + ":root-table:entry" + std::to_string(i), J().i("index", i).h("got", w1.fe).h("expected", orc::ROOTS[i]).done());
    }
    El sh = Goldilocks::shift(), sh2;
    Goldilocks::shift(sh2);
    if (orc::canon(sh.fe) != orc::COSET_SHIFT || orc::canon(sh2.fe) != orc::COSET_SHIFT)
        rep.violation(std::string(prop) + ":coset-shift", J().h("got", sh.fe).done());
    rep.cls("monitor:root_table_entries_checked", 33);
}

// C04 round trips with independently drawn configurations for the two legs
static void run_roundtrips(const vf::Args &args, Report &rep)
{
    Rng r(vf::mix64(args.seed, 0x4077 + args.shard * 13));
    gen::G64 g;
    uint64_t trials = args.getu("roundtrips", args.thorough() ? 200000 : 20000) / args.nshards + 1;
    int dmax = (int)args.getu("rt_dmax", args.thorough() ? 12 : 9);
    vf::ForkCfg fc;
    fc.group = 256; fc.case_timeout = 600; fc.nofork = args.nofork; fc.errdir = args.errdir; fc.family = "roundtrip";
    uint64_t base = vf::mix64(args.seed, 0x4078 + args.shard);
    auto draw = [&](Rng &q, uint64_t t) {
        std::vector<uint64_t> v(8);
        int d = (int)q.below(q.below(4) ? std::min(dmax, 6) + 1 : dmax + 1);
        v[0] = d; v[1] = 1 + q.below(q.coin() ? 4 : 17); v[2] = d + q.below(3); // d, ncols, S
        (void)t;
        return v;
    };
    vf::run_forked(rep, trials, fc,
        [&](uint64_t i) { return J().str("op", "roundtrip").u("trial", i).u("seed", base).done(); },
        [&](uint64_t) { return std::string("C04:roundtrip"); },
        [&](uint64_t i, Report &rp) {
            Rng q(vf::mix64(base, i));
            shim_mode_for_case(args, i);
            auto v = draw(q, i);
            int d = (int)v[0]; uint64_t ncols = v[1]; int S = (int)v[2];
            uint64_t n = 1ULL << d;
            bool fwd_first = q.coin();
            std::vector<uint64_t> x(n * ncols);
            bool bnd = q.below(4) == 0;
            for (auto &e : x) e = bnd ? g.pick(q) : q.next();
            struct Leg { uint64_t nphase, nblock; int buffer, alias; unsigned threads; } leg[2];
            for (auto &l : leg)
            {
                uint64_t pr = q.below(6), br = q.below(6);
                l.nphase = pr == 0 ? ~0ULL : (pr == 1 ? 0 : 1 + q.below(d + 2));
                l.nblock = br == 0 ? ~0ULL : (br == 1 ? 0 : 1 + q.below(ncols + 1));
                l.buffer = (int)q.below(2); l.alias = (int)q.below(3); l.threads = THREADS_SET[q.below(7)];
            }
            std::vector<uint64_t> cur = x;
            NTT_Goldilocks nttA(1ULL << S, leg[0].threads), nttB(1ULL << (S + (int)q.below(2)), leg[1].threads);
            NTT_Goldilocks *objs[2] = {&nttA, &nttB};
            for (int s = 0; s < 2; s++)
            {
                bool inverse = fwd_first ? s == 1 : s == 0;
                Leg &l = leg[s];
                uint64_t effb = l.nblock < 1 ? 1 : (l.nblock > ncols ? ncols : l.nblock);
                uint64_t nca = ncols / effb + (ncols % effb ? 1 : 0);
                ExactBuf src(n * ncols, s), dst(n * ncols, !s), buf(n * ncols, true);
                (void)nca;
                memcpy(src.p, cur.data(), n * ncols * 8);
                El *dp = l.alias == 0 ? src.el() : (l.alias == 1 ? dst.el() : NULL);
                if (inverse) objs[s]->INTT(dp, src.el(), n, ncols, l.buffer ? buf.el() : NULL, l.nphase, l.nblock);
                else objs[s]->NTT(dp, src.el(), n, ncols, l.buffer ? buf.el() : NULL, l.nphase, l.nblock);
                memcpy(cur.data(), l.alias == 1 ? dst.p : src.p, n * ncols * 8);
            }
            rp.evaluations++;
            for (uint64_t k = 0; k < n * ncols; k++)
                if (orc::canon(cur[k]) != orc::canon(x[k]))
                {
                    rp.violation(std::string("C04:roundtrip:") + (fwd_first ? "INTT(NTT(x))" : "NTT(INTT(x))") + ":d" + std::to_string(d),
                                 J().i("d", d).i("S", S).u("ncols", ncols).u("index", k).h("got", cur[k]).h("expected", x[k])
                                     .h("nphase0", leg[0].nphase).h("nblock0", leg[0].nblock).i("alias0", leg[0].alias).h("nphase1", leg[1].nphase).h("nblock1", leg[1].nblock).i("alias1", leg[1].alias).u("trial", i).u("seed", base).done());
                    break;
                }
            rp.cls(fwd_first ? "roundtrip:INTT_of_NTT" : "roundtrip:NTT_of_INTT");
            rp.nontrivial(vf::mix64(base, i));
            if (i < 2) rp.sample("roundtrip", J().i("d", d).u("ncols", ncols).h("nphase0", leg[0].nphase).h("nphase1", leg[1].nphase).h("nblock0", leg[0].nblock).h("nblock1", leg[1].nblock).done());
        });
}

// ------------------------------------------------------------------ C19 histories
static void run_histories(const vf::Args &args, Report &rep, Engine &eng)
{
    uint64_t nseq = args.getu("sequences", args.thorough() ? 20000 : 1500);
    int Smax = (int)args.getu("hist_smax", args.thorough() ? 9 : 7);
    uint64_t base = vf::mix64(args.seed, 0xC19);
    vf::ForkCfg fc;
    fc.group = 32; fc.case_timeout = 900; fc.nofork = args.nofork; fc.errdir = args.errdir; fc.family = "history";
    auto mine = [&](uint64_t i) { return (int)(i % args.nshards) == args.shard; };
    static const uint64_t NC[] = {1, 2, 3, 5, 8};
    auto gen_seq = [&](uint64_t i, std::vector<Cfg> &seq, int &S, unsigned &threads) {
        Rng q(vf::mix64(base, i));
        S = 1 + (int)q.below(Smax);
        threads = THREADS_SET[q.below(5)];
        int len = 2 + (int)q.below(q.below(4) ? 6 : 23);
        int style = (int)(i % 6); // directed pair patterns first, then random
        for (int k = 0; k < len; k++)
        {
            Cfg c;
            c.S = S; c.threads = threads;
            int kind = (int)q.below(3);
            if (style == 0) kind = K_EXT;                       // extendPol with changing N
            if (style == 1) kind = k % 2 ? K_EXT : (int)q.below(2); // alternate transform / extension
            c.kind = kind;
            c.d = (int)q.below(S + 1);
            if (style == 2) c.d = k % 2 ? (int)q.below(S / 2 + 1) : S; // large then small
            c.e = c.d + (int)q.below(3);
            if (style == 0 && k > 0 && seq[k - 1].d == c.d) c.d = (c.d + 1) % (S + 1), c.e = c.d + (int)q.below(3);
            c.ncols = NC[q.below(5)];
            uint64_t pr = q.below(6), br = q.below(5);
            c.nphase = pr == 0 ? ~0ULL : (pr == 1 ? 0 : 1 + q.below((kind == K_EXT ? c.e : c.d) + 2));
            c.nblock = br == 0 ? ~0ULL : (style == 3 ? (k % 2 ? 1 : 2) : 1 + q.below(c.ncols + 1));
            c.buffer = (int)q.below(2);
            c.alias = kind == K_EXT ? (int)q.below(2) : (int)q.below(3);
            c.input = q.below(6) == 0 ? 1 : (q.below(6) == 0 ? 3 : 0);
            seq.push_back(c);
        }
    };
    vf::run_forked(rep, nseq, fc,
        [&](uint64_t i) {
            std::vector<Cfg> seq; int S; unsigned th;
            gen_seq(i, seq, S, th);
            std::string s = "[";
            for (size_t k = 0; k < seq.size(); k++) s += (k ? "," : "") + seq[k].json();
            return J().u("sequence", i).u("seed", base).raw("calls", s + "]").done();
        },
        [&](uint64_t) { return std::string("C19:history"); },
        [&](uint64_t i, Report &rp) {
            std::vector<Cfg> seq; int S; unsigned th;
            gen_seq(i, seq, S, th);
            shim_mode_for_case(args, i);
            NTT_Goldilocks shared((uint64_t)1 << S, th);
            // a second shared object with another thread count, used alternately (global OpenMP state must not leak)
            NTT_Goldilocks shared2((uint64_t)1 << S, th == 1 ? 3 : 1);
            std::set<std::pair<int, int>> pairs;
            for (size_t k = 0; k < seq.size(); k++)
            {
                const Cfg &c = seq[k];
                NTT_Goldilocks *obj = (i % 5 == 4 && (k & 1)) ? &shared2 : &shared;
                // fresh object (constructed inside eng.run) and the shared object, both against the oracle
                struct Cap : Report { } capf, cap;
                capf.prop = rp.prop; capf.fd = open("/dev/null", O_WRONLY);
                bool ok_fresh = eng.run(c, capf, nullptr, "C19");
                close(capf.fd);
                cap.prop = rp.prop; cap.fd = open("/dev/null", O_WRONLY);
                bool ok_shared = eng.run(c, cap, obj, "C19");
                close(cap.fd);
                for (auto &kv : capf.counters) rp.counters[kv.first] += kv.second;
                for (auto &kv : cap.counters) rp.counters[kv.first] += kv.second;
                if (!ok_fresh && !ok_shared) rp.cls("history:fresh_and_shared_both_disagree_with_oracle(not a C19 matter)");
                rp.evaluations++;
                if (ok_fresh != ok_shared)
                {
                    std::string prefix = "[";
                    for (size_t m = 0; m <= k; m++) prefix += (m ? "," : "") + seq[m].json();
                    prefix += "]";
                    std::string prev = k ? std::string(KN[seq[k - 1].kind]) : "none";
                    if (!ok_fresh) cap.viol_seen = capf.viol_seen;
                    std::string what = cap.viol_seen.empty() ? "mismatch" : cap.viol_seen.begin()->first.substr(cap.viol_seen.begin()->first.rfind(':') + 1);
                    rp.violation(std::string("C19:history:") + KN[c.kind] + "-after-" + prev + ":" + what + (c.kind == K_EXT && k && seq[k - 1].kind == K_EXT ? (seq[k - 1].d == c.d ? ":sameN" : ":differentN") : ""),
                                 J().u("sequence", i).u("seed", base).u("failing_call_index", k).raw("shortest_failing_prefix", prefix).raw("events", events_json()).done());
                    break;
                }
                if (k) pairs.insert({seq[k - 1].kind, c.kind});
                if (k && c.kind == K_EXT && seq[k - 1].kind == K_EXT && seq[k - 1].d != c.d) rp.cls(seq[k - 1].d < c.d ? "history:extendPol_N_grows" : "history:extendPol_N_shrinks");
                if (k && seq[k - 1].d > c.d) rp.cls("history:large_then_small");
                if (k && (seq[k - 1].nblock > 1) != (c.nblock > 1)) rp.cls("history:blocked_unblocked_switch");
            }
            for (auto &p : pairs) rp.cls(std::string("history:pair:") + KN[p.first] + "->" + KN[p.second]);
            rp.cls("history:sequences");
            if (i % 5 == 4) rp.cls("history:two_objects_interleaved");
            rp.nontrivial(vf::mix64(base, i));
            if (i < 3) rp.sample("history", J().u("sequence", i).i("S", S).u("calls", seq.size()).raw("first_call", seq[0].json()).raw("second_call", seq[1].json()).done());
        }, mine);
}

static uint64_t g_snap[8];
static void stats_snapshot()
{
    uint64_t st[5] = {0, 0, 0, 0, 0};
    if (verif_omp_stats) verif_omp_stats(st);
    g_snap[0] = st[0]; g_snap[1] = st[1]; g_snap[2] = st[4];
    g_snap[3] = g_oracle_naive; g_snap[4] = g_oracle_fft; g_snap[5] = g_oracle_horner_cross;
}
static void stats_report(Report &rep)
{
    if (verif_omp_stats)
    {
        uint64_t st[5];
        verif_omp_stats(st);
        rep.cls("omp_shim:regions", st[0] - g_snap[0]);
        rep.cls("omp_shim:members_run", st[1] - g_snap[1]);
        rep.cls("omp_shim:regions_with_permuted_member_order", st[4] - g_snap[2]);
    }
    else rep.cls("omp:real_libgomp_processes");
    rep.cls("oracle:naive_dft_columns", g_oracle_naive - g_snap[3]);
    rep.cls("oracle:recursive_fft_columns", g_oracle_fft - g_snap[4]);
    rep.cls("oracle:fft_vs_horner_crosschecks", g_oracle_horner_cross - g_snap[5]);
}

int main(int argc, char **argv)
{
    vf::Args args = vf::parse_args(argc, argv);
    Report rep;
    rep.open(args.prop, args.out);
    stats_snapshot();
    vf::g_child_start = stats_snapshot;
    vf::g_child_finish = stats_report;
    bool th = args.thorough();
    unsigned naive_max = (unsigned)args.getu("naive_max", th ? 10 : 8);
    Engine eng(args.seed, naive_max);
    std::string what = args.get("what", args.prop);
    std::vector<Cfg> cfgs;
    if (what == "C03" || what == "C04")
    {
        int kind = what == "C03" ? K_NTT : K_INTT;
        if (args.shard == 0) run_roots(rep, what.c_str());
        build_grid(cfgs, kind, (int)args.getu("smax", th ? 8 : 5), 9, (int)args.getu("dmax", th ? 20 : 12), args.getu("large", th ? 2000 : 150), args.seed, args.getu("thin", th ? 1 : 3));
        // a few big transforms in every tier (index arithmetic beyond 2^16 rows)
        if (args.getu("big", 1))
            for (int d : {16, 17, 18})
            {
                Cfg c;
                c.kind = kind; c.S = d; c.d = d; c.ncols = d == 17 ? 2 : 1; c.nphase = d == 16 ? 3 : (d == 17 ? 4 : 1); c.nblock = d == 17 ? 2 : 1; c.alias = d % 3; c.threads = d == 18 ? 3 : 16; c.buffer = d & 1;
                cfgs.push_back(c);
            }
        if (th && args.getu("d22", 1)) for (int t = 0; t < 3; t++) { Cfg c; c.kind = kind; c.S = 22; c.d = 22; c.ncols = 1 + t; c.nphase = t == 0 ? 3 : (t == 1 ? 4 : 1); c.nblock = t; c.alias = t; c.threads = 16; cfgs.push_back(c); }
        run_cfgs(args, rep, eng, cfgs, kind == K_NTT ? "ntt_grid" : "intt_grid");
        run_linearity(args, rep, kind, th ? 10 : 8);
        run_omp_callers(args, rep, eng, kind);
        if (kind == K_INTT && args.getu("roundtrips", 1)) run_roundtrips(args, rep);
    }
    else if (what == "C05")
    {
        if (args.shard == 0) run_roots(rep, "C05");
        build_ext_grid(cfgs, (int)args.getu("emax", th ? 10 : 6), 7, (int)args.getu("elarge", th ? 20 : 12), args.getu("large", th ? 1500 : 120), args.seed, args.getu("thin", th ? 1 : 4));
        if (args.getu("big", 1))
            for (int e : {17, 18})
            {
                Cfg c;
                c.kind = K_EXT; c.e = e; c.d = e - (e == 17 ? 1 : 3); c.S = c.d; c.ncols = 1; c.nphase = e == 17 ? 3 : 2; c.nblock = 1; c.alias = e & 1; c.threads = e == 18 ? 3 : 16; c.buffer = e & 1;
                cfgs.push_back(c);
            }
        run_cfgs(args, rep, eng, cfgs, "extendpol_grid");
        run_linearity(args, rep, K_EXT, th ? 9 : 7);
        run_omp_callers(args, rep, eng, K_EXT);
    }
    else if (what == "C19")
    {
        run_histories(args, rep, eng);
    }
    else { fprintf(stderr, "unknown --what/--prop\n"); return 3; }
    stats_report(rep);
    rep.finish();
    return 0;
}
